"""Seed-font generation entry point used by `verif setup` (fills build/gen)."""
import os

def generate_all(outdir):
    os.makedirs(outdir, exist_ok=True)
