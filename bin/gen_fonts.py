"""Seed-font generation used by `verif setup` and (lazily) by every check: fills build/gen."""
import os, sys, hashlib
ROOT = os.path.dirname(os.path.dirname(os.path.abspath(__file__)))
sys.path.insert(0, os.path.join(ROOT, 'gen'))


def generate_all(outdir):
    import seeds
    os.makedirs(outdir, exist_ok=True)
    stamp = os.path.join(outdir, '.stamp')
    h = hashlib.sha1()
    for f in sorted(os.listdir(os.path.join(ROOT, 'gen'))):
        if f.endswith('.py'): h.update(open(os.path.join(ROOT, 'gen', f), 'rb').read())
    if os.path.exists(stamp) and open(stamp).read() == h.hexdigest():
        return
    seeds.write_all(outdir)
    open(stamp, 'w').write(h.hexdigest())


if __name__ == '__main__':
    generate_all(sys.argv[1] if len(sys.argv) > 1 else os.path.join(ROOT, 'build', 'gen'))
