#!/bin/bash
# selftest_all.sh <group>: regression of every mutant and seeded change of one group of properties (run the groups side by side)
cd "$(dirname "$0")/.." || exit 2
case "$1" in
  A) pats="C02- C03-";;
  B) pats="C04- C05-";;
  C) pats="C08- C09- C13- C16- C17-";;
  D) pats="C01- C06- C07- C10- C11- C12- C14- C15- C18- C19- C20-";;
  *) echo "usage: selftest_all.sh A|B|C|D"; exit 2;;
esac
export VERIF_SELFTEST_DIR=/tmp/vf-selftest-$1
python3 bin/verif selftest $pats 2>&1 | grep -E "^(seeded|mutants|selftest)"
rm -rf /tmp/vf-selftest-$1 /tmp/vf-selftest-$1-build
