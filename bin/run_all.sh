#!/bin/bash
# run_all.sh <tier>: runs every registered check in the given tier, prints one summary line per property
tier=${1:-quick}
cd "$(dirname "$0")/.."
for p in $(python3 -c "import json;print(' '.join(c['property_id'] for c in json.load(open('MANIFEST.json'))['checks']))"); do
  start=$(date +%s)
  python3 bin/verif check $p --tier $tier > /tmp/run_all_$p.out 2> /tmp/run_all_$p.err; rc=$?
  echo "$p rc=$rc $(( $(date +%s) - start ))s $(grep -c VIOLATION /tmp/run_all_$p.out) violations $(grep -c KNOWN-FINDING /tmp/run_all_$p.out) known | $(tail -1 /tmp/run_all_$p.err | cut -c1-160)"
done
