#!/usr/bin/env python3
"""campaign.py <family> <enumeration-tier> <deadline-seconds> [texts]: one-off deep exploration with the C02-C05 stream harness, outside the
registered tiers (results are printed, not written as evidence).  Example: vp run -- python3 bin/campaign.py action campaign5 7000"""
import sys, os, json, subprocess
ROOT = os.path.dirname(os.path.dirname(os.path.abspath(__file__))); sys.path.insert(0, os.path.join(ROOT, 'bin'))
import checks_py
fam, etier, deadline = sys.argv[1], sys.argv[2], sys.argv[3]; texts = sys.argv[4] if len(sys.argv) > 4 else 'small'
REPO = os.environ.get('VERIF_REPO', '/repo'); BUILD = os.environ.get('VERIF_BUILD', os.path.join(ROOT, 'build'))
ENV = dict(os.environ); ENV['ASAN_OPTIONS'] = 'detect_leaks=0:abort_on_error=1:allocator_may_return_null=1:max_allocation_size_mb=1024:symbolize=1:handle_abort=0'; ENV['UBSAN_OPTIONS'] = 'print_stacktrace=1:abort_on_error=1'
ENV['VERIF_REPO'] = REPO; ENV['VERIF_GEN'] = os.path.join(BUILD, 'gen'); ENV['VERIF_WORK'] = os.path.join(BUILD, 'work'); os.makedirs(ENV['VERIF_WORK'], exist_ok=True)
subprocess.check_call(['make', '-s', '-j16', '-C', ROOT, 'B=' + BUILD, 'VERIF_REPO=' + REPO, os.path.join(BUILD, 'asan', 'c02_stream')])
res, fails = checks_py.run_stream(ENV, ['python3', os.path.join(ROOT, 'gen', 'progenum.py'), fam, etier, '{shard}', '{nshards}'], os.path.join(BUILD, 'asan', 'c02_stream'),
                                  ['--tier', 'thorough', '--sub', fam, '--deadline', deadline, '--texts', texts])
agg = checks_py.merge_stream_results(fam, res); agg.pop('samples', None)
print('CAMPAIGN', json.dumps(agg)[:2000])
seen = set()
for f in fails:
    k = (f.get('prop'), f.get('kind'), str(f.get('what'))[:60], json.dumps(f.get('meta', {}).get('program')))
    if k in seen: continue
    seen.add(k); f2 = {a: b for a, b in f.items() if a not in ('blob', 'replay_output')}; print('CAMPAIGN-FAIL', json.dumps(f2)[:1200])
print('CAMPAIGN-DONE fails=%d distinct=%d' % (len(fails), len(seen)))
