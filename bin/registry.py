"""Which harness decides which property, at which level (see DESIGN.md section 3)."""

CHECKS = {}
NOT_APPLICABLE = {}
HOOK_COMMITS = []

CHECKS['C20'] = dict(
    level='model_checking',
    steps=[dict(mode='asan', bin='c20_tags')],
    rule='exhaustive enumeration: every C string of length 0..2 over all 255 non-NUL bytes and of length 3..6 (quick) / 3..8 (thorough) '
         'over 9 boundary bytes, each in an exact-size guard-page buffer; tags over a 16-byte-value alphabet^4 (quick) / all 2^32 tags (thorough); '
         'every 0..4-character prefix of every feature id / language tag / script tag of the shipped fonts, zero- vs space-padded, on every tag-taking entry point. '
         'distinct = outcome classes (length/high-bit classes, lookup hit/miss, distinct segment dumps)',
    state_meaning='one (string | tag | font,tag,prefix) case; transitions = API calls compared with the two-line reference conversion',
    level_text='Exhaustive enumeration of the bounded input space (all short strings over full/boundary byte alphabets, all tags, all padded tag prefixes) against a two-line reference conversion; each case runs on the real library with guard pages so a single byte of over-read/over-write faults deterministically.',
    level_note='Trusted: clang ASan/UBSan, mmap guard pages, the reference conversion (big-endian of first min(4,len) bytes). Strings longer than 2 use a 9-value boundary alphabet, not all bytes.',
    technique='exhaustive bounded input enumeration on the real code (guard-page buffers) vs reference model',
    assumptions=['guard pages make any access beyond the documented buffer a deterministic fault', 'ASan/UBSan instrumented build of the real library'],
)
