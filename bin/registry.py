"""Which harness decides which property, at which level (see DESIGN.md section 3)."""

CHECKS = {}
NOT_APPLICABLE = {}
HOOK_COMMITS = []

CHECKS['C20'] = dict(
    level='model_checking',
    steps=[dict(mode='asan', bin='c20_tags')],
    rule='exhaustive enumeration: every C string of length 0..2 over all 255 non-NUL bytes and of length 3..6 (quick) / 3..8 (thorough) '
         'over 9 boundary bytes, each in an exact-size guard-page buffer; tags over a 16-byte-value alphabet^4 (quick) / all 2^32 tags (thorough); '
         'every 0..4-character prefix of every feature id / language tag / script tag of the shipped fonts and of synthesised fonts with 1- to 4-character ids and with ids containing non-trailing spaces, zero- vs space-padded, on every tag-taking entry point (prefixes ending in a padding byte are not tags); a complete id of the font must select exactly that feature. '
         'distinct = outcome classes (length/high-bit classes, lookup hit/miss, distinct segment dumps)',
    state_meaning='one (string | tag | font,tag,prefix) case; transitions = API calls compared with the two-line reference conversion',
    level_text='Exhaustive enumeration of the bounded input space (all short strings over full/boundary byte alphabets, all tags, all padded tag prefixes) against a two-line reference conversion; each case runs on the real library with guard pages so a single byte of over-read/over-write faults deterministically.',
    level_note='Trusted: clang ASan/UBSan, mmap guard pages, the reference conversion (big-endian of first min(4,len) bytes). Strings longer than 2 use a 9-value boundary alphabet, not all bytes.',
    technique='exhaustive bounded input enumeration on the real code (guard-page buffers) vs reference model',
    assumptions=['guard pages make any access beyond the documented buffer a deterministic fault', 'ASan/UBSan instrumented build of the real library'],
)

CHECKS['C11'] = dict(
    quick_is_thorough=True,
    level='model_checking',
    steps=[dict(mode='asan', bin='c11_utf')],
    rule='exhaustive enumeration of code-unit strings: ALL UTF-8 byte strings of length 0..3 (16 843 009), all 4-byte strings whose first two bytes take every value and whose last two range over {00,41,7F,80,BF,C0,FF} (3 211 264: every lead F0..FF with every first continuation byte), all strings of length 4..5 (quick) / 4..6 (thorough) over 16 boundary bytes and 7..8 over 6 bytes; '
         'UTF-16 strings <=4 over 14 boundary units and every first unit x (boundary + D7F0..E00F) second units (quick) / all 2^32 pairs (thorough); UTF-32 single units k<<16|{0,FFFF} plus boundary set, strings <=3 over 8 values; '
         'each in an exact-size guard-page buffer, with pError NULL / non-NULL and buffer_end NULL for NUL-terminated text, compared with a Unicode Table 3-7 reference decoder. '
         'Shaping clause: all scalar sequences <=3 over 7 scalars x 3 encodings x optional single-unit ill-formed insertion at every position x dir 0/1 x fonts. distinct = (ill-formed, truncated, surrogate, NUL, error, count) classes and distinct segment dumps',
    state_meaning='one code-unit string (or scalar sequence); transitions = gr_count_unicode_characters / gr_make_seg calls compared with the reference decoder',
    level_text='Exhaustive over every UTF-8 string up to 3 bytes and boundary-structured longer strings, all UTF-16 unit pairs (thorough), boundary UTF-32 values, each evaluated on the real decoder inside guard pages and compared with an independent reference decoder; encoding-equivalence of segments on real fonts.',
    level_note='Trusted: reference decoder (Unicode ch.3 Table 3-7), guard pages, ASan/UBSan. Encoded surrogates are treated as unspecified (DESIGN 5.1). Strings longer than 3 bytes use boundary alphabets.',
    technique='exhaustive bounded input enumeration on the real code (guard-page buffers) vs reference decoder',
    assumptions=['encoded surrogates (ED A0..BF xx, UTF-32 D800..DFFF) neither required nor forbidden to be errors'],
)

CHECKS['C12'] = dict(
    quick_is_thorough=True,
    level='exploration',
    steps=[dict(mode='asan', bin='c12_nchars')],
    rule='all NUL-terminated strings of true length 0..3 over a 7-item alphabet (1-,2-,3-,4-byte characters, two kinds of lone lead unit, space) in UTF-8/16/32, terminator = last readable unit before a guard page, '
         'x nChars in {len+1, len+2, 2len+1, 64} x dir {0,1} x fonts (incl. one whose cmap maps U+0000 to a glyph); oracle: no fault, n_cinfo == len, dump identical to the call with the exact count. distinct = distinct reference segment dumps',
    level_text='Bounded exhaustive enumeration of short NUL-terminated texts with over-estimated nChars against the real library under guard pages; differential oracle (exact-count call).',
    level_note='Trusted: guard pages, ASan. Only over-estimates from a fixed set of five formulas are explored.',
    technique='exhaustive bounded input enumeration on the real code (guard-page buffers), differential oracle',
    assumptions=[],
)

CHECKS['C13'] = dict(
    quick_is_thorough=True,
    level='model_checking',
    steps=[dict(mode='asan', bin='c13_cmap')],
    rule='for every font variant EVERY code point 0..0x110010 is looked up through DirectCmap (options 0) and CachedCmap (gr_face_cacheCmap) and compared with a reference lookup written from the OpenType spec '
         '(fmt 12 above U+FFFF, fmt 4 for the BMP, 0 unmapped); gr_face_is_char_supported compared with reference||Silf pseudo map. Variants: all shipped fonts; synthesised cmaps over the structure space '
         '{1,2,3,17,256 segments} x {delta, wrapping delta, idRangeOffset arrays with zero entries, mixed} x {standard FFFF terminator, U+FFFF mapped, real segment ending at FFFF} x 7 fmt-12 group lists '
         '(plane-edge straddling, BMP entries, 300 groups, U+10FFFF mapped); subtable data stored in the opposite order of the encoding records; first segment starting at U+0000 (1, 2, 9 code points) x closing segment ending at FFFF with 1..257 real mappings x {delta, array}; all 31x4 presence combinations of the encoding records (0,0)(0,1)(0,2)(0,3)(3,1) x (0,4)(3,10) with distinguishable contents. '
         'distinct = distinct per-plane reference maps',
    state_meaning='one (font variant, plane) block; transitions = individual code-point lookups compared with the reference',
    level_text='Exhaustive per font over the whole code space through both lookup paths against an independent reference; the font space is a bounded enumeration of cmap structures.',
    level_note='Trusted: reference lookup (OpenType cmap spec), reference Silf pseudo-map reader. Synthesised cmaps keep subtables in encoding-record order, plus variants with the data in the opposite order.',
    technique='exhaustive enumeration of code points x bounded enumeration of cmap structures on the real code vs reference model',
    assumptions=['subtables laid out in encoding-record order'],
)

from checks_py import interp_diff

CHECKS['C07'] = dict(
    level='model_checking',
    steps=[dict(mode='asan', bin='c07_vm'), dict(mode='asan-call', bin='c07_vm'),
           dict(name='interp_diff_corpus', py=interp_diff('c07_shape', ['corpus']), targets=[('asan', 'c07_shape'), ('asan-call', 'c07_shape')])],
    rule='(a) operand decoding: PUSH_BYTE/BYTEU x all 256, PUSH_SHORT/SHORTU x all 65536, PUSH_LONG x (2^17 hi-half x {0,FFFF} + boundary^2); '
         '(b) ALL straight-line programs of <=4 (quick) / <=5 (thorough) atoms over 37 atoms (12 boundary operand pushes, 22 arithmetic/comparison/logical/conditional/truncation/bit opcodes, 2 BITSET parameterisations, NOP) x 3 terminators, '
         'filtered by the REAL loader (Machine::Code as a constraint), executed on the real Machine in both interpreter builds and compared with a reference evaluator written from doc/OpCodes.adoc; '
         '(deep) D pushes followed by D-1 ADD / SUB / OR for every D = 1..1100 (around the 1024-entry machine stack; a run-time stack_overflow status is the only accepted deviation, from depth 1024 on); (c) every shipped font x corpus line/word x dir shaped by both builds, per-case dump hashes compared. distinct = distinct (value,status) results / distinct segment dumps',
    state_meaning='one bytecode program (or corpus shaping case); transitions = program executions compared with the reference evaluator / with the other interpreter build',
    level_text='Exhaustive enumeration of all short straight-line programs over the arithmetic/logic opcode subset, each run on the real VM (both interpreters) against an independent 32-bit reference evaluator; differential shaping of the corpora between the two interpreter builds.',
    level_note='Trusted: reference evaluator (doc/OpCodes.adoc semantics, numbering frozen in /verif: 0x3E OR, 0x3F AND). Program length <= 5 atoms; operand values from a 12-value boundary set. Slot/segment-touching opcodes are covered by C02/C06.',
    technique='exhaustive bounded program enumeration on the real VM vs reference evaluator; cross-build differential',
    assumptions=['opcode numbering 0x3E=BITOR 0x3F=BITAND as implemented by the GDL compiler (doc rows are swapped, DESIGN 5.2)'],
)

CHECKS['C18'] = dict(
    quick_is_thorough=True,
    level='model_checking',
    steps=[dict(mode='asan', bin='c18_features')],
    rule='fonts: all shipped + synthesised Feat/Sill families whose bit widths hit every residue around a 32-bit word boundary ((1,31,1) (16,16,1) (17,16) (15,15,2) (16,0,16,2), zero-settings features, 33x1, 9x8, 40 mixed, Feat v1, 129/130 zero-settings features, language entries naming feature ids the Feat table lacks, 1- to 4-character ids, ids spread over the whole unsigned 32-bit range in four low/high mixes) + S-full variants. '
         'static: every gr_face_*/gr_fref_* feature, language and label query vs independent Feat/Sill/name readers (labels in 3 encodings x 6 requested languages, zero-/space-padded tags). '
         'BFS: explicit-state search over histories of set(f,v) (f in a boundary feature subset, v in {0,1,mid,max,max+1,0xFFFF}) and clone, from start states {clone(NULL), defaults, each language}; after EVERY operation ALL features are read and compared with a plain-array model; '
         'state = value vector (deduplicated), depth chosen so that ops^depth <= 30k (quick) / 400k (thorough), each expansion replays the history on a fresh gr_feature_val',
    state_meaning='states = distinct feature-value vectors reached; transitions = set/clone operations executed on real gr_feature_val objects and compared with the model',
    level_text='Explicit-state BFS over API histories on real feature-value objects with a plain-array reference model, plus exhaustive static comparison of all feature/language/label queries with independent table readers.',
    level_note='Trusted: reference Feat/Sill/name readers and the array model. Operations are drawn from a boundary subset of features (all features are observed). The language-id feature (id 1) and ids rewritten by tag zero-padding are excluded as unspecified.',
    technique='explicit-state BFS over API histories on the real code vs reference model',
    assumptions=['setting values are compared as unsigned 16-bit', 'name record 0 unretrievable fonts are skipped for labels (DESIGN 7.6)'],
)

from checks_py import stream_families, cached_binary
HOOK_COMMITS.append('7573bac2'); HOOK_COMMITS.append('be5b62f7'); HOOK_COMMITS.append('5d23bb9a')

_PROG_RULE = ('fonts enumerated by gen/progenum.py and filtered by the REAL loader: (action) every action program of <=3 atoms (quick) / <=4 atoms (thorough) over a 26-atom alphabet, plus (deep, short texts) every program of 4 and 5 atoms over the 11 structural atoms (NEXT, glyph change, copy, insert, delete, assoc, attach) in the main substitution context and every 5-atom program in a 3-slot rule with pre-context and in a positioning pass - thorough: the 5-atom programs in five more contexts (rule length 1..3, pre-context, positioning) and every 6-atom program containing two of {insert/delete, copy, attach} in two contexts (3.9 M programs) -, plus programs whose run-time stack use exceeds the linear depth analysis of the loader (SET_FEAT x 2..20) '
              '{NEXT, PUT_GLYPH x|y, PUT_SUBS -1|0|+1, PUT_COPY -1|0|+1, INSERT, DELETE, ASSOC, attach.to -2..2, ATTR_SET adv/shift/att/insert, IATTR_SET user, SET_FEAT, slot/glyph-attr readers} x 6 terminators '
              '(RET_ZERO, POP_RET -2..2), in 3 (quick) / 6 (thorough) rule contexts (rule length 1..3, pre-context 0..1, maxRuleLoop 1/2/5, substitution or positioning pass) followed by a fixed attaching pass; '
              '(constraint) every constraint program of <=4 / <=5 atoms over 20 atoms incl. CNTXT_ITEM bodies netting 0/+1/+2, plus CNTXT_ITEM bodies of k = 2..16 pushes (skipped at run time on the other slots) followed by k-1 AND/ADD/OR; (twopass) all ordered pairs (thorough: triples) of 24 hand-written attach/re-attach/delete/insert/copy/assoc rules (incl. three that change a slot and reference it from the next item, so that the loader plants a temporary copy of a slot that has children) '
              'in two passes / one pass / substitution+positioning, LTR and RTL fonts; (manyrules) scale seeds with 43..200 rules per rule length 1..4 ending in successive success states (candidate lists beyond the 128-entry rule buffers of the engine); (slotattrs) every slot-attribute code 0..79 through ATTR_SET / ATTR_ADD / PUSH_SLOT_ATTR / IATTR_SET / PUSH_ISLOT_ATTR / IATTR_ADD with sub-indices {0,1,3,255}, in fonts with 0/1/2 justification levels and 1/3 user attributes, substitution and positioning pass; (growth) a substitution rule inserting k in {1,31,62,63,64,65,100} slots per glyph, optionally a second doubling substitution pass, then a pass at iPos that does nothing / INSERTs / DELETEs (the 64-slots-per-character budget and the refusal by the loader of length-changing opcodes after iPos); (classmap) every class map of 1..2 (thorough 1..3) classes from a 5-entry catalog (empty, 1..3 members) x every linear/lookup split x PUT_GLYPH / PUT_SUBS in the 8- and 16-bit forms over every class index incl. one past the map (index equal to the size of an output class, empty classes, an output class ending the class data); (stalemap) a rule of length 2..3 that deletes one of its slots (five shapes, one with pre-context), then a rule of length 1..2 on the glyph it wrote whose attach.to names the slot k = -3..4 items away (before its slot map, inside it, the look-ahead entry, one and two past it), in the same pass, the next substitution pass or a positioning pass: entries of the shared slot map left by the longer earlier run must not be reachable.  Every accepted font x every text of length 0..3 (thorough 0..4) over {a, b, unmapped} + astral/mark/long texts x dir flags {0,1,3,6} (thorough 0..7) x {font NULL, ppm 12}. ')

for _p, _what in (('C02', 'oracle: ASan/UBSan silence, rule-loop counter hook <= maxRuleLoop x (slots + insert budget + 2), n_slots <= 64 x max(1,nChars), all gr_seg_*/gr_slot_*/gr_cinfo_* queries incl. every gr_slot_attr code, allocation balance, table borrow discipline'),
                  ('C03', 'oracle: next/prev chain visits exactly n_slots distinct slots ending at last, prev inverse, indices a permutation, finite positions, gid < n_glyphs'),
                  ('C04', 'oracle: parent chains terminate inside the segment, every attached slot exactly once in its parent\'s child chain, chain members name that parent, bases form one sibling chain'),
                  ('C05', 'oracle: n_cinfo == nChars, characters and bases equal the reference decoding, slot before/after/original in range, every character covered, cinfo before/after in [0,n_slots)')):
    CHECKS[_p] = dict(
        level='exploration',
        steps=[dict(name='program_enumeration', py=stream_families(['stalemap', 'classmap', 'growth', 'slotattrs', 'twopass', 'manyrules', 'deep', 'constraint', 'action'], _p), targets=[('asan', 'c02_stream')]),
               dict(name='accepted_load_mutants', py=cached_binary('c01_load', _p, 'C01'), targets=[('asan', 'c01_load')]),
               dict(name='shipped_corpora', py=cached_binary('c03_corpus', _p, 'C02'), targets=[('asan', 'c03_corpus')])],
        rule=_PROG_RULE + 'Additionally every C01 load mutant (single byte / field / field pair / truncation deviations of the seed fonts) that the loader accepts is shaped with 4 texts x dir {0,1,3}; and every shipped font x corpus lines/words (quick: first 1500, the collision fonts all) + every substring of 1..4 characters of the first lines (texts that start inside a cluster or with a mark) and every synthesised seed font (all S-full / S-min / Feat variants: compressed, RTL, line-end flag, pass bits, bidi step with mirroring, dense attributes, cmap edges ...) x all strings of length 0..3 over 11 characters (letters, space, marks, pseudo-glyph character, supplementary character), x dir 0..7 x {font NULL, ppm 16}; (encodings) UTF-16 and UTF-32 input: every unit sequence of length 1..4 over alphabets with paired, unpaired and reversed surrogates / out-of-range values on two fonts, char-infos compared with the reference decoding. ' + _what + '. distinct = distinct structural segment dumps (slots, glyphs, attachments, associations) observed',
        level_text='Bounded exhaustive enumeration of rule programs (the font is the program) crossed with all short texts and direction flags, each executed on the real engine under sanitizers with the structural oracle evaluated on every resulting segment.',
        level_note='Trusted: ASan/UBSan, the structural oracle (src/common/segcheck.hpp), the reference UTF decoder. Program length, alphabet and text length are bounded; collision passes are not part of the program space. The four properties C02-C05 share one cached run per tree.',
        technique='exhaustive bounded program enumeration (fonts as programs) x all short inputs on the real code, invariant oracle on every final state',
        assumptions=['loop bound uses the insert budget remaining at pass start (hook GRAPHITE2_VERIF)'],
    )

CHECKS['C19'] = dict(
    quick_is_thorough=True,
    level='model_checking',
    steps=[dict(mode='asan', bin='c19_justify')],
    rule='fonts {Padauk, Scheherazade, charis, Awami_test, Annapurna, S-full (justification levels), S-full RTL, S-full and S-full RTL with the line-end flag (temporary line-end slots; extra texts c x 9 / 14 / 15 whose growth leaves exactly one free slot in the segment pool), S-full with the line-end flag and a line-end glyph id the font does not have, ...} x 3 (thorough 6) corpus texts of 5-9 (thorough 5-12) characters x dir flags 0..7 x {font NULL, ppm 24, on the synthesised fonts also a font with an advance callback (hinted)}; '
         'histories: EVERY subset of cluster-boundary break positions (up to 2^9 quick / 2^11 thorough) applied with gr_slot_linebreak_before, then for every line every (width in {-1,0,W/4,W,3W,1e6}) x flags 0..3 x (pFirst,pLast) in {NULL, whole line, inner, last-only, first-only, (first,NULL), (NULL,last), (second,NULL)}, '
         'plus the first one and two characters of the first text and a lone space as texts of their own; all calls applied one after another on the same segment; after EVERY call every line must still be the same slots in the same order with prev the inverse of next, finite origins and return value, unchanged gids when the font has no justification data; gr_seg_destroy + allocation balance at the end',
    state_meaning='states = break histories (one segment per subset of break positions); transitions = gr_seg_justify calls, each followed by the full integrity check of all lines',
    level_text='Explicit enumeration of all break-position subsets and all justify parameter choices as one growing API history per segment, on the real code, with the stream-integrity invariant evaluated after every call.',
    level_note='Trusted: the integrity oracle; ASan/UBSan. Break positions are restricted to cluster boundaries (no attachment crossing the break), texts to <= 9 characters.',
    technique='exhaustive enumeration of API histories (break subsets x justify parameter product) on the real code, invariant after every step',
    assumptions=['breaks are placed at cluster boundaries only'],
)

CHECKS['C15'] = dict(
    quick_is_thorough=True,
    level='exploration',
    steps=[dict(mode='asan', bin='c15_scale')],
    rule='(every shipped font x first 60 (quick) / all (thorough) corpus lines and words) + (S-full, S-full RTL, S-full v3, S-min, S-full with pass bits, with a bidi step (LTR and RTL), and S-full-jatt LTR / RTL whose positioning pass sets justify.width on an attached glyph that keeps its advance and on a base, x ALL strings of length 0..3 (thorough 0..4) over {a,b,c,d,e,space,acute,grave}) x dir {0,1,3} x ppm {0.5,1,7.3,12,48.5,upem,4096}: '
         'structural dump identical to the font=NULL run; origin x/y, gr_slot_advance_X (with the face and with face NULL) / _Y, segment advance within 1e-4 relative of design value x ppm/upem. '
         '(justified_lines) Padauk, Charis, Scheherazade, general.ttf x 25 (thorough 200) corpus items and S-full / S-full RTL x all strings of length 4 (thorough 5) over {a,b,space,acute,d} containing a space, paragraph direction = font direction: whole segment and BOTH lines after a break before each of the first 4 cluster starts x ppm {9,12,96,4096} x width factor {1.3,0.9}: gr_seg_justify(W x ppm/upem, font) must return and position every slot of the line as gr_seg_justify(W, NULL) scaled by ppm/upem, within one design unit per slot (the justifier hands out whole design units). distinct = distinct structural dumps',
    level_text='Bounded exhaustive product of fonts x texts x directions x ppm values on the real code with a differential oracle (design-unit run) and a linear-scaling oracle.',
    level_note='Trusted: the oracle tolerance 1e-4 (measured worst case < 1e-6). ppm values are a 7-point set, not all of (0,4096].',
    technique='exhaustive bounded configuration/input product on the real code, differential + metamorphic oracle',
    assumptions=[],
)

CHECKS['C10'] = dict(
    quick_is_thorough=True,
    level='exploration',
    steps=[dict(mode='asan', bin='c10_options')],
    rule='16 configurations (faceOptions 0..7 x {table callbacks, gr_make_file_face}) per font; fonts: all shipped + S-full variants (compressed, no sub-boxes, no glyf/loca, more attribute glyphs than outlines, a glyph storing a value for every attribute number and one storing only the last, a cmap whose first format 4 segment starts at U+0000 and whose closing segment FFFC..FFFF carries real mappings, Silf v3/v4, RTL), S-min, 40-feature font; '
         'face dump (every gr_face_*/gr_fref_* query, labels, is_char_supported probes) and every segment dump (bitwise, positions included) for corpus lines/words (60 quick / all thorough) resp. all strings <=2 (thorough <=3) over 9 characters x dir {0,1,3} x {default, first language} '
         'must equal configuration (0, callbacks); with preloadAll no get_table call after load. distinct = distinct reference dumps',
    level_text='Exhaustive configuration product (all option bits x both table sources) crossed with bounded text sets on the real code, differential oracle against the default configuration.',
    level_note='Trusted: dump completeness (src/common/dump.hpp). Text sets are bounded.',
    technique='exhaustive configuration product x bounded inputs on the real code, differential oracle',
    assumptions=[],
)

CHECKS['C16'] = dict(
    quick_is_thorough=True,
    level='model_checking',
    steps=[dict(mode='asan', bin='c16_borrow'), dict(name='load_mutants_release_discipline', own_tier=True, py=cached_binary('c01_load', 'C16', 'C01'), targets=[('asan', 'c01_load')])],
    rule='explicit-state BFS over API histories on a memory face whose get_table returns a fresh exact-size heap copy per call and whose release_table frees it (outstanding set tracked; release of a non-outstanding pointer recorded): '
         'roots = fonts {S-min, S-full, S-full compressed, small.ttf} (thorough + Padauk) x faceOptions {0,2,4,6,7} x {release fn, no release fn}; operations = make font, 12 gr_make_seg variants (3 texts x dir x font/NULL), featureval_for_lang (default / language), clone, '
         'feature label in 3 encodings, value label, justify, linebreak, is_char_supported, full face dump, and destroy of every live object in every order that respects ownership (fonts/segments before the face; feature values and labels may outlive it); depth 5 (thorough 7), '
         'deduplicated on (live objects with parameters, outstanding borrows); every history is replayed on a fresh world and closed by destroying the rest in a legal order. Invariants after every operation: no foreign/double release, no get_table after load with preloadAll, ASan silence; at quiescence: no outstanding borrow, allocation balance zero. '
         'Environment deviations: every table x {NULL, length 0, length 3} x options 0..7 x {release, no release}: outstanding set empty when gr_make_face returns NULL. Rejecting fonts: S-full with ONE unreadable glyph (outline box xMin > xMax; two positions) x options 0..7 x {release, no release}: preloading creation fails after the glyph loader borrowed its tables, lazy faces load and meet the glyph while shaping: same borrow invariants and allocation balance. File face: gr_make_file_face on 5 (thorough 7) fonts x options 0..7 x {whole file, cut to 3/4, 1/2, 12 bytes, empty, missing}: create, shape, query labels and features, destroy; allocation balance zero and no file descriptor left open, also after a failed creation. Load mutants: every deviation of the C01 enumeration (bytes, fields, field pairs, truncations, compressed payloads: see C01) is loaded through the same bookkeeping face; whether the library accepts or rejects the mutant, no borrow may stay outstanding, no foreign pointer may be released and the allocation balance must return to zero (one cached run per tree shared with C01; this step follows the requested tier: quick = the quick C01 enumeration)',
    state_meaning='states = distinct (live objects, outstanding borrows) configurations; transitions = API operations executed on real objects, invariants evaluated after each',
    level_text='Explicit-state BFS over API histories against an environment model of the table callbacks (fresh copies, strict bookkeeping), invariants in every state, plus exhaustive single-table environment deviations.',
    level_note='Trusted: environment model (src/common/memface.hpp), ASan use-after-free detection on released copies, allocator statistics for the balance. Object multiplicities are bounded (1 face, 1 font, 2 segments, 2 feature values, 1 label).',
    technique='explicit-state BFS over API histories on the real code with an instrumented environment model',
    assumptions=['at most one face per history'],
)

CHECKS['C08'] = dict(
    level='model_checking',
    steps=[dict(mode='asan', bin='c08_history')],
    rule='roots = fonts {S-min, S-full, small.ttf, S-full with pass bits (segments made of certain glyphs skip passes), S-twoclass (one glyph in two lookup classes), S-full-excl (every mark names a collision exclusion glyph that the text need not contain), S-full with ONE unreadable glyph (demand-loading faces substitute glyph 0 on every lookup; preloading faces refuse the font)} (thorough + Padauk) x faceOptions {0, preloadGlyphs, cacheCmap, preloadAll} x font {gr_make_font, advance-callback font}; '
         'operations on ONE face and ONE font: 32 gr_make_seg variants (4 texts x dir x features x font/NULL, up to 2 live segments), destroy, justify, linebreak, feature/value label, featureval_for_lang, is_char_supported, full face dump, second font create/destroy; '
         'two searches per root: BFS to depth 4 (thorough 6) deduplicated on the mutable-state key (set of loaded glyphs, set of loaded boxes, loader present, name table read, set of cached advances, live segments) and a plain enumeration without deduplication to depth 2 (thorough 3); '
         'in EVERY visited state 72 probe segments (texts x dir {0,1,3} x features {default, language, modified} x {font, NULL}) and the face dump are compared with those of a fresh face. Each history is replayed on a fresh face. '
         '(text_pair_histories) fonts {S-full, Awami_test, small.ttf, S-full-c12bmp whose format-12 subtable lists BMP characters with other glyphs than format 4} (thorough + Padauk, Charis, Scheherazade) x faceOptions {0, 6}: character set = base characters of the font (incl. mapped supplementary-plane characters), every pseudo-glyph character of its Silf tables, an unsupported character, and for each c also c+1, c+0x100, c+0x10000 (keys that collide under truncation / blocking); for EVERY ordered pair (c1, c2): one history step (shape [base,c1,base] in either direction, or gr_face_is_char_supported(c1)) on a fresh face, then one probe (shape [base,c2,base] x 2 directions, is_char_supported(c2)) compared with the probe on a fresh face',
    state_meaning='states = visited API-history states in which all probes were evaluated; transitions = API operations replayed',
    level_text='Explicit-state search over API histories on real objects with a differential oracle (state reached through a history vs fresh object) in every state; key soundness is backed by an additional undeduplicated shallow enumeration.',
    level_note='Trusted: the key enumerates the mutable face/font state (read through private headers); canonical dumps. Bounded depth; at most two live segments. State not in the key (e.g. a newly introduced memo) is only reached through the undeduplicated enumeration and the exhaustive one-step text-pair histories.',
    technique='explicit-state search over API histories on the real code, differential oracle in every state',
    assumptions=[],
)

from checks_py import stream_simple

CHECKS['C14'] = dict(
    level='model_checking',
    steps=[dict(mode='asan', bin='c14_lz4'), dict(mode='asan', bin='c14_pair'),
           dict(name='transparency', py=stream_simple('transparency', 'lz4enum.py', 'c14_transparency'), targets=[('asan', 'c14_transparency')])],
    rule='decoder component on exact-size guard-page input and output buffers vs a byte-at-a-time reference LZ4 block decoder: (a) ALL blocks of <=2 sequences + final literals over literal lengths {0,1,7,8,14,15,16,270} x match lengths {4,5,18,19,20,274} x offsets {1,2,3,7,8,9,produced,produced+1,0} '
         'x announced size {exact,-1,+1,+8}, and all 3-sequence blocks over reduced sets; (long_runs) literal-only blocks of every length 0..800, and one- and two-sequence blocks with literal / match lengths around one, two and three 255-extension bytes x offsets {1,2,7,8,16,produced} (overlapping copies, a second sequence with zero literals); (b) every truncation of valid seed blocks, and valid seed blocks with 1..3 bytes appended (first byte all 256 values, the others over 6 boundary values: incomplete trailing sequences); (c) every single-byte deviation (all 255 values; thorough: x all token bytes) of valid seed blocks <=48 bytes; (d) ALL byte strings of length 13 (thorough 14) over {00,10,1F,F0}. In (b)-(d) a block the reference rejects is presented with the full size AND with every size at which its output would already be complete after some sequence literal run or match (the sizes at which a decoder that stops early reports success). '
         'Oracle: no fault, return in {-1} u [0,size]; size returned == announced size only if the reference decodes to exactly those bytes; valid shrinking encodings obeying the end-of-block rules must be accepted. '
         '(table_wrapper) the [version][scheme:5|announced size:27] header of the compressed Silf and Glat tables of the three compressed S-full variants (thorough + Awami compressed): ALL 32 scheme values x 32 boundary sizes (0..5, 7..9, 12, 13, 16, compressed length +-1/-8/-9, true size +-1/+-4, half, double, powers of two, 27-bit maximum), loaded with options 0 and 7 under ASan: no fault, unmodified header loads and reports the uncompressed face, every OTHER announced size under the same scheme is refused (the block decodes to the original size, not to the announced one), borrowed tables returned. '
         'Transparency: S-full with Silf / Glat / both compressed under EVERY encoding that differs from the greedy parse in 1 decision (thorough: 2 nearby decisions) out of {literal instead of match, shortest match, farthest offset, 19-byte match (length-extension byte)}: plus, for each table, the valid blocks that are exactly 1..12 bytes shorter than the data (last matches shortened or dropped): must load (options 0 and 7) and give the same face dump and the same segments for all strings <=2 (thorough <=3) over 9 characters x dir 0/1 as the uncompressed font; '
         'shipped pair Awami_test / Awami_compressed_test on the whole awami corpus x dir {1,3} x options {0,7}',
    state_meaning='one compressed block (or one compressed font); transitions = decoder runs compared with the reference decoder / shapings compared with the uncompressed font',
    level_text='Exhaustive enumeration of structured LZ4 blocks, truncations and byte deviations against a reference decoder on guard-paged buffers; enumeration of valid encodings of real tables for the transparency clause.',
    level_note='Trusted: reference decoder and enumerating encoder (gen/lz4enum.py), guard pages. Lengths, offsets and decision deviations are bounded sets.',
    technique='exhaustive bounded input enumeration on the real code vs reference decoder; enumerated valid encodings with differential oracle',
    assumptions=['success of lz4::decompress is judged as Face::Table does: returned size == announced size'],
)


CHECKS['C01'] = dict(
    level='fault_enumeration',
    steps=[dict(name='load_mutants', py=cached_binary('c01_load', 'C01', 'C01'), targets=[('asan', 'c01_load')])],
    rule='deviation-bounded enumeration around well-formed seeds (small.ttf, S-min; S-full, S-full compressed, S-full v3/v4, Feat-v1 font, Padauk; thorough + Scheherazade, Awami plain/compressed, charis): '
         '(bytes) EVERY byte of every table of the small seeds x all 255 other values x faceOptions {0,7}; (fields) every structural field of the generator field map (counts, offsets, lengths, indices, opcodes; first 48 header bytes of each table for shipped fonts) x a boundary value set '
         '{0,1,orig+-1,+-2,half,double,7F,80,FF,100,7FFF,8000,FFFF,max-1,max,mid,table length+-1,remaining length+-1}; (pairs) all pairs of fields of one table x 6x6 values (small seeds; thorough S-full); (truncation) every prefix length of every table, table absent, 1/8/64 trailing garbage bytes; '
         '(truncation_with_field) every 2- or 4-byte field of every table <= 8 KB of every seed: the table loses its last c = 1..16 bytes AND the field is lowered by c, c/2, c/4, c/8 (a length, count or offset that described the extent up to the table end now matches the shorter table); (compressed_payload) every byte of the compressed Silf and Glat tables of S-full compressed (8-byte wrapper + LZ4 block) x all 255 other values, accepted mutants shaped (thorough + first 300/last 100 bytes of Awami compressed x 15 values); (container) every byte of the sfnt header and table directory x all values through gr_make_file_face. Oracle: ASan/UBSan silence, per-mutant watchdog, NULL or a face on which the complete face dump (all gr_face_*/gr_fref_*/gr_featureval_* queries, labels in 3 encodings, is_char_supported probes) and gr_face_destroy complete, '
         'allocation balance zero, table borrows all returned (also on the NULL path). distinct = distinct face dumps of accepted mutants',
    level_text='Exhaustive single-deviation (and bounded double-deviation) fault enumeration of the table bytes and structural fields around well-formed fonts, each mutant loaded by the real library under sanitizers with a memory-face environment model.',
    level_note='Trusted: ASan/UBSan, allocator statistics, memory face bookkeeping. Corruptions needing more than two coordinated fields are not reached; large shipped fonts are mutated in their header bytes only.',
    technique='exhaustive deviation-bounded fault enumeration (dev-1 bytes/fields, dev-2 field pairs, truncations) on the real code',
    assumptions=[],
)

CHECKS['C09'] = dict(
    level='model_checking',
    steps=[dict(mode='trk', bin='c09_threads'), dict(mode='tsan', bin='c09_threads')],
    rule='harness: N in {2,3} threads, each gr_face_featureval_for_lang + gr_make_seg on its own text (texts with overlapping glyph sets) + full dump + feature label + value label + find_fref + face info + is_char_supported + a font of its own on the shared face with a second segment that is justified + destroy (each thread asks for a different language of the font, none of them the first), on ONE cold shared face (gr_face_preloadAll) and ONE shared gr_make_font font; '
         'fonts S-full (two text sets, one with characters above U+FFFF: first use of the format-12 part of the cmap cache), small.ttf, Padauk, S-full with many pseudo-glyph characters, S-full-gmet (a rule reads the face-level ascent metric; no OS/2 table), S-full with one unreadable glyph (preloadAll must refuse it, the configuration is then vacuous) (thorough + Scheherazade, Awami_test, charis) x dir {0,1}. The library is compiled with -fsanitize=thread instrumentation and linked against our own __tsan_* runtime (src/sched/trk_runtime.cpp): every instrumented access is classified private (own stack / own allocation arena) or shared; '
         'two accesses are dependent iff same 8-byte granule, different threads, at least one write. Run 0 records the access sets; if the dependence relation is empty all interleavings are Mazurkiewicz-equivalent to the executed one (1 schedule class, reported with the event counts); otherwise (and always for the POSITIVE CONTROL configurations: lazily loading face, advance-callback font, and - the one that MUST show a conflict, independent of library internals - every thread letting the library write a tag into one caller-supplied buffer) '
         'every schedule with <= 2 preemptions at the dependent accesses is executed under a serialising scheduler from an identical cold state and each thread\'s result is compared with the single-threaded reference. Oracles: empty dependence relation (= no data race, the library has no synchronisation), no table callback during the parallel phase, per-thread result == sequential result. '
         'Cross-check: the same bodies run free 20x under the real ThreadSanitizer',
    state_meaning='states = serialised executions (schedules) performed; transitions = instrumented shared-memory accesses observed (events)',
    level_text='Access-level dependence analysis on the real code plus preemption-bounded exhaustive schedule exploration where dependences exist; empty dependence gives a one-class partial-order argument backed by measured read/write sets; free-running real-TSan pass keeps unsynchronised accesses visible.',
    level_note='Trusted: clang TSan instrumentation (access hooks), our runtime classification (stack/arena = private), interposed memcpy/memmove/memset. Hardware memory-model effects are out of scope. Bounds: N <= 3 threads, <= 2 preemptions.',
    technique='dependence-based partial-order reduction over instrumented accesses + preemption-bounded schedule enumeration under a controlled scheduler; separate free-running ThreadSanitizer pass',
    assumptions=['a conflicting access pair is a data race because the library contains no synchronisation'],
)

CHECKS['C17'] = dict(
    level='exploration',
    steps=[dict(mode='asan', bin='c17_collision')],
    rule='(zones) EVERY sequence of <=3 (thorough <=4) operations over {exclude(a,b), exclude_with_margins(a,b,axis 0|2), weighted<XY> x 3 weight tuples, weighted<SD>} with endpoints a<b from a 7-point (thorough 8-point) lattice around bounds [0,8] plus degenerate/reversed intervals, after initialise<XY|SD>, on a real Zones object; '
         'after every operation: intervals sorted, non-empty, disjoint, inside the bounds, cell-wise equal (free/excluded and summed cost coefficients) to a unit-cell reference model; closest() from every half-lattice origin returns cost -1 iff every cell is excluded and otherwise a position inside a free cell. '
         '(end to end) every ShiftCollider::resolve performed while shaping (hooks in Pass::resolveCollisions): Awami_test, Awami_compressed_test, AwamiNastaliq-Regular x all awami corpus lines/words x dir {1,3}, and S-full / S-full RTL / S-full without sub-boxes x all strings of length 1..4 (thorough 1..5) containing a mark over 7 characters x dir {0,1}: '
         'limit clause (accumulated offset + new shift inside a well-formed limit rectangle when it started inside), verdict clause (isCol false => the target bounding octabox at its new placement is separated, on one of the four octagon axes, from the octabox or every sub-octabox of each merged non-ignored neighbour; tolerance 0.05), Zones invariants of the four axis ranges; a second hook after the engine has stored the shift and updated the flags: the collision-remains flag equals the verdict just computed and, when clear, the stored shift is the shift the verdict was computed for. LTR glyphs with x-asymmetric limits are outside the property (DESIGN 7.1). '
         '(collider_lattice) a real ShiftCollider on a real segment: target glyph at the origin, ONE neighbour on a 21x21 (thorough 31x31) lattice of origins spanning both glyph extents, x (target, neighbour) from 5 (thorough 8) octabox-bearing glyphs of Awami_test and of S-full (with and without sub-boxes) x 5 limit rectangles (incl. zero-area) x margin {0,20} x 6 accumulated offsets x 2 current shifts x dir {LTR,RTL} x isAfter {0,1}: initSlot, mergeSlot, resolve, then the same three clauses. '
         '(collider_lattice_seq) the one-neighbour lattice with sequence-order constraints on the pair (collision.order in {RIGHTUP, LEFTDOWN, NOABOVE, NOBELOW, NOLEFT, NORIGHT} x {same sequence class, proximity class}, sameCluster, order weights) and with an exclusion glyph on the neighbour (2 offsets): same three clauses (these regions only remove or penalise space). '
         '(kern_lattice) a real KernCollider driven as Pass::resolveKern drives it (initSlot, mergeSlot, resolve, shift): same glyphs, ONE neighbour on the 21x21 (thorough 31x31) lattice x 5 limits x margin {0,20} x previous kern offset {0,30,-30,200} x space {0,50} x dir: kern finite and horizontal, previous offset + kern inside the x range of a well-formed limit; the end-to-end runs observe every KernCollider::resolve through a hook with the same oracle. '
         '(collider_lattice2) TWO neighbours, each on its own 7x7 (thorough 9x9) lattice, the full product of both lattices, x glyph triples from 4 (thorough 5) glyphs x 4 limits x margin x 3 offsets x 2 shifts x dir x isAfter bits per neighbour. distinct = reachable free-cell patterns / distinct segments / (glyphs, limit) classes',
    level_text='Exhaustive operation-sequence enumeration on the real interval set against a lattice reference model, plus observation of every collision-resolution step of bounded shaping runs through guarded hooks with an independent octagon-geometry oracle.',
    level_note='Trusted: unit-cell model and cost-coefficient formulas (Exclusion::weighted is reused for the arithmetic only), separating-axis oracle, hooks. Continuous geometry is explored on the arrangements that the corpora and the synthesised strings produce and on finite lattices of neighbour origins for one and two neighbours (k <= 2); for the KernCollider only the limit clause is checked (it has no resolved verdict).',
    technique='exhaustive bounded operation-sequence enumeration on the real code vs reference model; invariant observation of every fixing step through hooks',
    assumptions=['verdict clause is evaluated against the neighbours the engine merged (hook), not against all glyphs'],
)

CHECKS['C06'] = dict(
    level='model_checking',
    steps=[dict(name='gdl_lite', py=stream_simple('gdl_lite', 'gdl_lite.py', 'c06_stream', thorough_deadline='6000'), targets=[('asan', 'c06_stream')])],
    rule='GDL-lite programs (gen/gdl_lite.py) compiled to Silf/Glat/Gloc/cmap tables by the synthesiser: (single) every rule with pre-context 0..2 (uniform class), body length 1..3 (total <= 4 quick / 5 thorough) over 3 (thorough 5) overlapping input classes, '
         'at most two body items carrying one action from {put_glyph x|z, delete, insert z, user0=3, advance=777, put_subs([a b]->[x y])}, optional constraint (glyph attribute == v, feature == 1; thorough: on every item); (pair) ordered pairs from a 64-rule core that overlaps on many strings '
         '(precedence by sort key, by rule order, by constraint; mixed pre-context lengths in one pass); (twopass) substitution pass then positioning pass (shift, advance, user attribute, attachment of an inserted zero-advance mark); (attr_then_pair) a pass setting a user attribute / advance followed by a pass with two core rules (inserted slots must be fresh); (backup_chain) MaxRuleLoop M in 2..5 with k <= M-1 single-slot rules that substitute and resume at their own slot (no progress, the loop limit must not intervene), then a rule spanning 2-3 slots (resuming after it or inside it), then a rule that could match inside that output; (class_lookup) PUT_SUBS through lookup classes of every size 1..8 in two member orders, with and without pre-context, every member substituted alone and in a run; (copy) PUT_COPY from the following / preceding / pre-context INPUT slot: swaps, three-slot rotations, copy followed by an attribute assignment, between a pass that marks glyphs with user attributes beyond one byte and negative and a pass testing them; (changed_ref_attached) a base that already carries one or two attached marks is changed (PUT_GLYPH) by a later rule whose next item takes its glyph through PUT_SUBS with a slot reference to that base: the marks stay attached at the same offsets; (attr_ops / attr_read) ATTR_ADD / ATTR_SUB / IATTR_ADD on one item of a rule, constraints reading advance / shift of the item itself, of the pre-context item and of the following item, also after a first pass changed them; (direction) RTL fonts and reverse-direction passes. Order: the hand-shaped families first, then the single rules by total length, unconstrained before constrained (1.37 M programs in the thorough tier, about 40 min on 16 cores; a deadline cut would lose the tail of that order and is reported as exhaustive=false). '
         'Every program x every string of length 1..3 (thorough 1..4) over {a,b,c,d} + strings with an unmapped character x dir {0,1} (x feature 0/1 when tested): the reference interpreter (written from doc/GTF.adoc and doc/OpCodes.adoc: longest sort key first then earliest rule, constraint true, in-place stream, cursor after the rule, advance reset on glyph change, '
         'pen accumulation with shift and attachment offsets) must equal the engine on glyph ids, parent indices, advance/shift/user/attach attributes and, for LTR unreversed programs, design-unit origins and the segment advance',
    state_meaning='states = (program, string, direction, feature) evaluations; every one is a reference trace validated against the implementation',
    level_text='Reference-model conformance: a bounded exhaustive family of rule programs is compiled to real fonts and every reference evaluation is compared with the real engine (total conformance, not sampling).',
    level_note='Trusted: the GDL-lite reference interpreter and the synthesiser. Non-goals of the subset: collision, justification, bidi, mirroring, ligature components, cluster advance rules, loop-limit behaviour (every rule moves the cursor forward).',
    technique='bounded exhaustive program enumeration with reference interpreter, every trace replayed on the real engine',
    assumptions=['positions are compared only for LTR fonts shaped LTR without reverse-direction passes'],
)
