"""Python-side steps of checks that need more than one harness run (cross-build differentials)."""
import os, json, subprocess

ROOT = os.path.dirname(os.path.dirname(os.path.abspath(__file__)))


def _hash_lines(path):
    d = {}
    if os.path.exists(path):
        for l in open(path):
            p = l.split()
            if len(p) == 2: d[int(p[0])] = p[1]
    return d


def interp_diff(binname, subs):
    """Step factory: run `binname` in the asan (direct) and asan-call builds, compare per-case observation hashes."""
    def step(tier, ENV, build, run_binary):
        work = ENV['VERIF_WORK']; os.makedirs(work, exist_ok=True)
        results, failures = [], []
        outs = {}
        for mode in ('asan', 'asan-call'):
            base = os.path.join(work, '%s.%s.hashes' % (binname, mode))
            res, fails, rc, err = run_binary({'mode': mode, 'bin': binname}, tier, ['--hash-out', base])
            for r in res: r['sub'] = '%s[%s]' % (r.get('sub'), 'direct' if mode == 'asan' else 'call')
            for f in fails: f['_mode'] = mode; f['_bin'] = binname
            results += res; failures += fails
            outs[mode] = base
        compared = differing = 0
        for sub in subs:
            a = _hash_lines(outs['asan'] + '.' + sub); b = _hash_lines(outs['asan-call'] + '.' + sub)
            for idx in sorted(set(a) | set(b)):
                compared += 1
                if a.get(idx) != b.get(idx):
                    differing += 1
                    if differing <= 20:
                        failures.append({'sub': sub, 'case': idx, 'kind': 'interpreters_disagree', 'direct': a.get(idx), 'call': b.get(idx),
                                         '_replay_py': 'checks_py', '_bin': binname, '_mode': 'asan', '_differential': 'interp'})
        results.append({'sub': 'direct_vs_call[%s]' % binname, 'evaluations': compared, 'classes': len(set(_hash_lines(outs['asan'] + '.' + subs[0]).values())),
                        'exhaustive': all(r.get('exhaustive') for r in results), 'differing': differing, 'samples': []})
        return results, failures, (1 if failures else 0), ''
    return step


def replay(desc, ENV, build, run_binary):
    """Replays one differential case in both builds; returns (failed_again, text)."""
    BUILD = os.path.dirname(ENV['VERIF_WORK'])
    build(['build/asan/%s' % desc['_bin'], 'build/asan-call/%s' % desc['_bin']])
    obs = {}
    for mode in ('asan', 'asan-call'):
        path = os.path.join(BUILD, mode, desc['_bin'])
        p = subprocess.run([path, '--tier', desc.get('_tier', 'quick'), '--sub', str(desc['sub']), '--case', str(desc['case']), '--hash-out', 'x'],
                           stdout=subprocess.PIPE, stderr=subprocess.PIPE, env=ENV, cwd=ROOT)
        out = p.stdout.decode('utf-8', 'replace')
        hs = [l.split()[1] for l in out.splitlines() if len(l.split()) == 2 and l.split()[0] == str(desc['case'])]
        obs[mode] = (p.returncode, hs)
    return (obs['asan'] != obs['asan-call'] or obs['asan'][0] != 0, json.dumps(obs))
