"""Python-side steps of checks that need more than one harness run (cross-build differentials)."""
import os, json, subprocess

ROOT = os.path.dirname(os.path.dirname(os.path.abspath(__file__)))


def _hash_lines(path):
    d = {}
    if os.path.exists(path):
        for l in open(path):
            p = l.split()
            if len(p) == 2: d[int(p[0])] = p[1]
    return d


def interp_diff(binname, subs):
    """Step factory: run `binname` in the asan (direct) and asan-call builds, compare per-case observation hashes."""
    def step(tier, ENV, build, run_binary):
        work = ENV['VERIF_WORK']; os.makedirs(work, exist_ok=True)
        results, failures = [], []
        outs = {}
        for mode in ('asan', 'asan-call'):
            base = os.path.join(work, '%s.%s.hashes' % (binname, mode))
            res, fails, rc, err = run_binary({'mode': mode, 'bin': binname}, tier, ['--hash-out', base])
            for r in res: r['sub'] = '%s[%s]' % (r.get('sub'), 'direct' if mode == 'asan' else 'call')
            for f in fails: f['_mode'] = mode; f['_bin'] = binname
            results += res; failures += fails
            outs[mode] = base
        compared = differing = 0
        for sub in subs:
            a = _hash_lines(outs['asan'] + '.' + sub); b = _hash_lines(outs['asan-call'] + '.' + sub)
            for idx in sorted(set(a) | set(b)):
                compared += 1
                if a.get(idx) != b.get(idx):
                    differing += 1
                    if differing <= 20:
                        failures.append({'sub': sub, 'case': idx, 'kind': 'interpreters_disagree', 'direct': a.get(idx), 'call': b.get(idx),
                                         '_replay_py': 'checks_py', '_bin': binname, '_mode': 'asan', '_differential': 'interp'})
        results.append({'sub': 'direct_vs_call[%s]' % binname, 'evaluations': compared, 'classes': len(set(_hash_lines(outs['asan'] + '.' + subs[0]).values())),
                        'exhaustive': all(r.get('exhaustive') for r in results), 'differing': differing, 'samples': []})
        return results, failures, (1 if failures else 0), ''
    return step


def replay(desc, ENV, build, run_binary):
    """Replays one differential case in both builds; returns (failed_again, text)."""
    BUILD = os.path.dirname(ENV['VERIF_WORK'])
    build(['build/asan/%s' % desc['_bin'], 'build/asan-call/%s' % desc['_bin']])
    obs = {}
    for mode in ('asan', 'asan-call'):
        path = os.path.join(BUILD, mode, desc['_bin'])
        p = subprocess.run([path, '--tier', desc.get('_tier', 'quick'), '--sub', str(desc['sub']), '--case', str(desc['case']), '--hash-out', 'x'],
                           stdout=subprocess.PIPE, stderr=subprocess.PIPE, env=ENV, cwd=ROOT)
        out = p.stdout.decode('utf-8', 'replace')
        hs = [l.split()[1] for l in out.splitlines() if len(l.split()) == 2 and l.split()[0] == str(desc['case'])]
        obs[mode] = (p.returncode, hs)
    return (obs['asan'] != obs['asan-call'] or obs['asan'][0] != 0, json.dumps(obs))


def run_stream(ENV, producer_cmd, harness_path, harness_args, nshards=16):
    """Runs nshards pipelines `producer(shard) | harness`; returns (result dicts, failure dicts)."""
    procs = []
    for s in range(nshards):
        prod = subprocess.Popen([c.replace('{shard}', str(s)).replace('{nshards}', str(nshards)) for c in producer_cmd], stdout=subprocess.PIPE, env=ENV, cwd=ROOT)
        cons = subprocess.Popen([harness_path] + harness_args, stdin=prod.stdout, stdout=subprocess.PIPE, stderr=subprocess.PIPE, env=ENV, cwd=ROOT)
        prod.stdout.close()
        procs.append((prod, cons))
    results, failures = [], []
    for s, (prod, cons) in enumerate(procs):
        out, err = cons.communicate(); prod.wait()
        got_result = False
        for line in out.decode('utf-8', 'replace').splitlines():
            if line.startswith('RESULT '):
                try: results.append(json.loads(line[7:])); got_result = True
                except Exception as e: failures.append({'kind': 'harness_error', 'why': 'bad RESULT line', 'raw': line[:300]})
            elif line.startswith('FAIL '):
                try: failures.append(json.loads(line[5:]))
                except Exception: failures.append({'kind': 'unparsable_failure', 'raw': line[:1000]})
        if cons.returncode not in (0, 1) or not got_result or prod.returncode != 0:
            failures.append({'kind': 'harness_error', 'rc': cons.returncode, 'producer_rc': prod.returncode, 'stderr': err.decode('utf-8', 'replace')[-2000:], 'shard': s})
    return results, failures


def merge_stream_results(name, results):
    """Sums counters over workers (keys starting with max_ are maxed), unions class hashes."""
    agg = {'sub': name, 'evaluations': 0, 'exhaustive': True, 'wall_s': 0.0, 'counters': {}, 'samples': []}
    classes = set(); supp = 0
    for r in results:
        agg['evaluations'] += r.get('evaluations', 0); agg['exhaustive'] = agg['exhaustive'] and bool(r.get('exhaustive'))
        agg['wall_s'] = max(agg['wall_s'], r.get('wall_s', 0)); supp += r.get('failing_observations_same_kind_suppressed', 0)
        for k, v in r.get('counters', {}).items():
            agg['counters'][k] = max(agg['counters'].get(k, 0), v) if k.startswith('max_') else agg['counters'].get(k, 0) + v
        classes.update(r.get('class_hashes', []))
        for smp in r.get('samples', [])[:1]:
            if len(agg['samples']) < 4: agg['samples'].append(smp)
    agg['classes'] = len(classes); agg['failing_observations_same_kind_suppressed'] = supp
    return agg


def _verif_hash():
    import hashlib
    h = hashlib.sha1()
    for d in ('gen', 'src/common', 'src/ref', 'src/checks', 'bin'):
        p = os.path.join(ROOT, d)
        for f in sorted(os.listdir(p)):
            fp = os.path.join(p, f)
            if os.path.isfile(fp) and not f.endswith('.pyc'): h.update(f.encode()); h.update(open(fp, 'rb').read())
    return h.hexdigest()[:12]


def _tree_hash(repo):
    import hashlib
    h = hashlib.sha1()
    for d in ('src', 'src/inc', 'include/graphite2'):
        p = os.path.join(repo, d)
        if not os.path.isdir(p): continue
        for f in sorted(os.listdir(p)):
            fp = os.path.join(p, f)
            if os.path.isfile(fp): h.update(f.encode()); h.update(open(fp, 'rb').read())
    return h.hexdigest()[:16]


def stream_families(families, prop, harness='c02_stream', extra_args=()):
    """Step factory for the shared C02-C05 program-enumeration runs.  Results of one (tree, harness, tier, family) run are
    cached under build/work/cache so that the four properties that share the run do not repeat it; `prop` selects which
    failing observations belong to the property being checked (crashes and harness-level problems belong to C02)."""
    def step(tier, ENV, build, run_binary):
        work = ENV['VERIF_WORK']; cache = os.path.join(work, 'cache'); os.makedirs(cache, exist_ok=True)
        key = '%s-%s' % (_tree_hash(ENV['VERIF_REPO']), _verif_hash())
        results, failures = [], []
        for fam in families:
            cf = os.path.join(cache, '%s-%s-%s-%s.json' % (harness, fam, tier, key))
            if os.path.exists(cf):
                d = json.load(open(cf)); d['agg']['cached'] = True
            else:
                res, fails = run_stream(ENV, ['python3', os.path.join(ROOT, 'gen', 'progenum.py'), fam, tier, '{shard}', '{nshards}'],
                                        os.path.join(os.path.dirname(work), 'asan', harness), ['--tier', tier, '--sub', fam, '--deadline', '240' if tier == 'quick' else '1200'] + list(extra_args) + (['--texts', 'small'] if fam in ('constraint', 'deep', 'slotattrs') else ['--texts', 'long'] if (fam in ('twopass', 'manyrules') and tier == 'thorough') else []))
                d = {'agg': merge_stream_results(fam, res), 'fails': fails}
                for old in os.listdir(cache):
                    if old.startswith('%s-%s-%s-' % (harness, fam, tier)): os.unlink(os.path.join(cache, old))
                json.dump(d, open(cf, 'w'))
            agg = dict(d['agg']); c = agg.get('counters', {})
            if prop in ('C03', 'C04', 'C05'):
                agg['evaluations'] = c.get('segments', 0) - c.get('null_segments', 0)      # segments whose structure was checked
                agg['fonts'] = c.get('fonts', 0)
            agg['samples'] = (agg.get('samples') or []) + [{'family': fam, 'note': 'records produced by gen/progenum.py'}]
            results.append(agg)
            for f in d['fails']:
                fp = f.get('prop')
                if f.get('kind') in ('crash', 'harness_error', 'unparsable_failure', 'harness_died_outside_case') or fp is None: fp = 'C02'
                if fp == 'C16' and prop == 'C02': fp = 'C02'          # leaked table borrows on these fonts also break C02's "no leak" clause
                if fp != prop: continue
                f = dict(f); f['_mode'] = 'asan'; f['_bin'] = harness; f['_replay_py'] = 'checks_py'; f['_differential'] = 'stream'; f['_args'] = ['--tier', tier] + list(extra_args)
                failures.append(f)
        return results, failures, (1 if failures else 0), ''
    return step


_interp_replay = replay


def replay(desc, ENV, build, run_binary):
    if desc.get('_differential') != 'stream':
        return _interp_replay(desc, ENV, build, run_binary)
    # stream record replay: feed the recorded bytes to the harness in-process mode; failing again = a FAIL line of the same property or a crash
    BUILD = os.path.dirname(ENV['VERIF_WORK'])
    build(['build/asan/%s' % desc['_bin']])
    if 'blob' not in desc: return (True, 'no blob recorded')
    p = subprocess.run([os.path.join(BUILD, 'asan', desc['_bin'])] + list(desc.get('_args', [])) + ['--replay-stdin'], input=bytes.fromhex(desc['blob']),
                       stdout=subprocess.PIPE, stderr=subprocess.PIPE, env=ENV, cwd=ROOT)
    out = p.stdout.decode('utf-8', 'replace'); again = p.returncode != 0
    for l in out.splitlines():
        if l.startswith('FAIL '):
            try:
                if json.loads(l[5:]).get('prop', 'C02') == desc.get('prop', 'C02'): again = True
            except Exception: again = True
    return (again, out[-1500:].replace(desc['blob'], '<blob>') + p.stderr.decode('utf-8', 'replace')[-1500:])


def stream_simple(name, producer_script, harness, thorough_deadline='1200'):
    """Step factory: nshards pipelines `python3 gen/<producer_script> tier shard n | build/asan/<harness> --tier tier`, no caching."""
    def step(tier, ENV, build, run_binary):
        work = ENV['VERIF_WORK']
        res, fails = run_stream(ENV, ['python3', os.path.join(ROOT, 'gen', producer_script), tier, '{shard}', '{nshards}'], os.path.join(os.path.dirname(work), 'asan', harness), ['--tier', tier, '--sub', name, '--deadline', '240' if tier == 'quick' else thorough_deadline])
        agg = merge_stream_results(name, res); agg['samples'] = (agg.get('samples') or []) + [{'producer': 'gen/' + producer_script}]
        c = agg.get('counters', {})
        for key in ('shapings_compared', 'segments_compared'):
            if key in c: agg['states'] = c[key]; agg['transitions'] = c[key]; agg['validated'] = c[key]
        for f in fails: f['_mode'] = 'asan'; f['_bin'] = harness; f['_replay_py'] = 'checks_py'; f['_differential'] = 'stream'; f['_args'] = ['--tier', tier]
        return [agg], fails, (1 if fails else 0), ''
    return step


def cached_binary(binname, prop, default_prop, mode='asan', structural_props=('C03', 'C04', 'C05')):
    """Step factory: run a sharded harness binary once per (tree, harness, tier) and let several properties read its verdicts.
    Failures carry a 'prop' field; crashes and untagged failures belong to default_prop."""
    def step(tier, ENV, build, run_binary):
        work = ENV['VERIF_WORK']; cache = os.path.join(work, 'cache'); os.makedirs(cache, exist_ok=True)
        key = '%s-%s' % (_tree_hash(ENV['VERIF_REPO']), _verif_hash())
        cf = os.path.join(cache, 'bin-%s-%s-%s.json' % (binname, tier, key))
        if os.path.exists(cf):
            d = json.load(open(cf))
            for r in d['results']: r['cached'] = True
        else:
            res, fails, rc, err = run_binary({'mode': mode, 'bin': binname}, tier)
            d = {'results': res, 'fails': fails}
            for old in os.listdir(cache):
                if old.startswith('bin-%s-%s-' % (binname, tier)): os.unlink(os.path.join(cache, old))
            json.dump(d, open(cf, 'w'))
        results = []
        for r in d['results']:
            r = dict(r); r['sub'] = '%s:%s' % (binname, r.get('sub'))
            if prop in structural_props and 'segments_on_accepted_mutants' in r.get('counters', {}): r['evaluations'] = r['counters']['segments_on_accepted_mutants']
            elif 'loads' in r.get('counters', {}): r['enumerated_cases'] = r.get('evaluations'); r['evaluations'] = r['counters']['loads']
            results.append(r)
        failures = []
        for f in d['fails']:
            fp = f.get('prop') or default_prop
            if f.get('kind') in ('crash', 'harness_error', 'unparsable_failure', 'harness_died_outside_case'):
                # a crash while loading belongs to the loader property, a crash while shaping an accepted mutant to C02: the report tells which
                rep = f.get('report', '')
                fp = 'C02' if ('gr_make_seg' in rep or 'runGraphite' in rep or 'gr_seg_' in rep or 'gr_slot_' in rep) and default_prop == 'C01' else default_prop
            if fp != prop and f.get('also') != prop: continue
            f = dict(f); f['_mode'] = mode; f['_bin'] = binname; f['_args'] = []
            failures.append(f)
        return results, failures, (1 if failures else 0), ''
    return step
