"""Mutation self-test: apply each patch under /verif/mutants (or /verif/seeded/*/patch.diff) to a scratch copy of
/repo, optionally confirm the repository's own tests still pass, run the property's check against the scratch
copy and require a VIOLATION.  Nothing here is part of MANIFEST commands.

  verif selftest [--baseline] [--tier quick|thorough] [--keep] [name-substring ...]
"""
import os, sys, subprocess, shutil, re, json, time, glob

ROOT = os.path.dirname(os.path.dirname(os.path.abspath(__file__)))
SCRATCH = os.environ.get('VERIF_SELFTEST_DIR', '/tmp/vf-selftest')          # several selftests can run side by side with different directories
SBUILD = SCRATCH + '-build'


def sh(cmd, **kw):
    return subprocess.run(cmd, shell=True, stdout=subprocess.PIPE, stderr=subprocess.STDOUT, text=True, **kw)


def patch_meta(path):
    meta = {'property': None, 'props': []}
    d = os.path.dirname(path)
    mj = os.path.join(d, 'meta.json')
    if os.path.basename(path) == 'patch.diff' and os.path.exists(mj):
        m = json.load(open(mj)); meta['props'] = m.get('detected_by') or [m.get('property')]; meta['property'] = m.get('property')
        return meta
    for l in open(path):
        m = re.match(r'#\s*property:\s*(\S+)', l)
        if m: meta['property'] = m.group(1)
        m = re.match(r'#\s*checks:\s*(.*)', l)
        if m: meta['props'] = m.group(1).split()
    if not meta['props'] and meta['property']: meta['props'] = [meta['property']]
    return meta


def sync_scratch():
    os.makedirs(SCRATCH, exist_ok=True)
    r = sh("rsync -a --checksum -i --delete --exclude _build --exclude .git /repo/ %s/" % SCRATCH)
    # files restored to their original content keep their old mtime: touch them so make rebuilds
    for l in r.stdout.splitlines():
        p = l.split(None, 1)
        if len(p) == 2 and p[0].startswith('>f'):
            fp = os.path.join(SCRATCH, p[1])
            if os.path.exists(fp): os.utime(fp, None)


def run_baseline():
    b = os.path.join(SCRATCH, '_b')
    r = sh("cmake -G Ninja -S %s -B %s -DCMAKE_BUILD_TYPE=RelWithDebInfo -DCMAKE_CXX_FLAGS=-Wno-error -DGRAPHITE2_NTRACING=ON > /dev/null && cmake --build %s 2>&1 | tail -3" % (SCRATCH, b, b))
    if r.returncode != 0: return False, 'build failed: ' + r.stdout[-800:]
    r = sh("ctest --test-dir %s -j8 --timeout 900 2>&1 | tail -15" % b)
    base = json.load(open('/root/.vp/BASELINE.json'))
    failed = set(re.findall(r'^\s*\d+ - (\S+) \(', r.stdout, re.M))
    bad = [t for t in base['stable_pass'] if t.split('::')[0] in failed]
    return (not bad), ('baseline tests failing: %s' % bad if bad else 'baseline ok')


def main(args):
    tier = 'quick'; baseline = False; keep = False; names = []
    i = 0
    while i < len(args):
        if args[i] == '--tier': tier = args[i + 1]; i += 2; continue
        if args[i] == '--baseline': baseline = True; i += 1; continue
        if args[i] == '--keep': keep = True; i += 1; continue
        names.append(args[i]); i += 1
    patches = sorted(glob.glob(os.path.join(ROOT, 'mutants', '*.patch'))) + sorted(glob.glob(os.path.join(ROOT, 'seeded', '*', 'patch.diff')))
    if names: patches = [p for p in patches if any(n in p for n in names)]
    summary = []
    for p in patches:
        meta = patch_meta(p)
        label = os.path.relpath(p, ROOT)
        sync_scratch()
        r = sh("cd %s && patch -p1 --no-backup-if-mismatch < %s" % (SCRATCH, p))
        if r.returncode != 0:
            summary.append((label, 'PATCH-FAILED', r.stdout[-300:])); continue
        if baseline:
            ok, msg = run_baseline()
            if not ok: summary.append((label, 'UNREALISTIC', msg)); continue
        det = []
        for prop in meta['props']:
            env = dict(os.environ); env['VERIF_REPO'] = SCRATCH; env['VERIF_BUILD'] = SBUILD; env['VERIF_EVIDENCE'] = SBUILD + '/evidence'; env['VERIF_REPLAYS'] = SBUILD + '/replays'
            t0 = time.time()
            try:
                rr = subprocess.run(['timeout', '-k', '10', '2400', 'python3', os.path.join(ROOT, 'bin', 'verif'), 'check', prop, '--tier', tier], stdout=subprocess.PIPE, stderr=subprocess.PIPE, text=True, env=env, cwd=ROOT)
            finally:
                subprocess.run('pkill -9 -f %s/ 2>/dev/null' % env.get('VERIF_BUILD', '/nonexistent-build-dir'), shell=True)      # a check cut by the timeout may leave harness children behind
            viol = [l for l in rr.stdout.splitlines() if l.startswith('VIOLATION')]
            det.append((prop, rr.returncode, len(viol), round(time.time() - t0, 1), rr.stderr[-400:] if not viol else ''))
        caught = any(d[2] > 0 and d[1] == 1 for d in det)
        summary.append((label, 'DETECTED' if caught else 'MISSED', det))
        print('%-60s %s %s' % (label, 'DETECTED' if caught else 'MISSED', [(d[0], d[1], d[2], d[3]) for d in det]), flush=True)
        if not caught:
            for d in det: print('   ', d[4].replace('\n', '\n    '))
    if not keep:
        shutil.rmtree(SCRATCH, ignore_errors=True); shutil.rmtree(SBUILD, ignore_errors=True)
    for s in summary:
        if s[1] not in ('DETECTED', 'MISSED'): print('%-60s %s %s' % s)
    missed = [s for s in summary if s[1] != 'DETECTED']
    print('selftest: %d patches, %d detected, %d not' % (len(summary), len(summary) - len(missed), len(missed)))
    return 1 if missed else 0
