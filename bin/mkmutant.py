#!/usr/bin/env python3
"""mkmutant.py <name> <prop[,checks...]> <repo-relative-file> <old> <new> [<file> <old> <new> ...]: writes mutants/<name>.patch"""
import sys, os, subprocess, tempfile, shutil
name, props = sys.argv[1], sys.argv[2]
trip = sys.argv[3:]
out = ['# property: %s' % props.split(',')[0], '# checks: %s' % ' '.join(props.split(','))]
i = 0
while i < len(trip):
    f, old, new = trip[i], trip[i+1], trip[i+2]; i += 3
    src = open('/repo/' + f).read()
    assert src.count(old) == 1, (f, old, src.count(old))
    with tempfile.TemporaryDirectory() as d:
        os.makedirs(os.path.join(d, 'a', os.path.dirname(f))); os.makedirs(os.path.join(d, 'b', os.path.dirname(f)))
        open(os.path.join(d, 'a', f), 'w').write(src); open(os.path.join(d, 'b', f), 'w').write(src.replace(old, new))
        r = subprocess.run(['diff', '-u', 'a/' + f, 'b/' + f], cwd=d, stdout=subprocess.PIPE, text=True)
        out.append(r.stdout)
open('/verif/mutants/%s.patch' % name, 'w').write('\n'.join(out))
print('wrote mutants/%s.patch' % name)
