#!/bin/bash
# confirm_seed.sh <worktree>: re-verify a sub-agent's change: demo fails with it, passes without it (library tests were run by the agent; rerun with TESTS=1)
wt=$1; cd $wt || exit 2
git diff -- src include > /tmp/confirm.$$.diff
cmp -s /tmp/confirm.$$.diff demo/patch.diff || { echo "patch.diff differs from worktree diff"; diff /tmp/confirm.$$.diff demo/patch.diff | head -5; }
bash demo/run.sh > /tmp/confirm.$$.with 2>&1; w=$?
git apply -R demo/patch.diff || exit 2
bash demo/run.sh > /tmp/confirm.$$.without 2>&1; wo=$?
git apply demo/patch.diff || exit 2
echo "demo with change: exit $w; without: exit $wo"
if [ -n "$TESTS" ]; then cmake --build _build > /dev/null 2>&1; ctest --test-dir _build -j8 --timeout 900 2>&1 | grep -E "tests passed"; fi
rm -f /tmp/confirm.$$.*
