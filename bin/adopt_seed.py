#!/usr/bin/env python3
"""adopt_seed.py <seed-id> <worktree> <property> "<what it needs to manifest>": copies a confirmed sub-agent change into /verif/seeded/<seed-id>/"""
import sys, os, shutil, json, subprocess
sid, wt, prop, needs = sys.argv[1:5]
dst = os.path.join('/verif/seeded', sid); os.makedirs(dst, exist_ok=True)
src = os.path.join(wt, 'demo')
for f in os.listdir(src):
    p = os.path.join(src, f)
    if os.path.isdir(p) or os.path.getsize(p) > 300000 or f.endswith(('.o', '.so', '.ttf', '.a')) or os.access(p, os.X_OK) and not f.endswith(('.sh', '.py')): continue
    shutil.copy(p, os.path.join(dst, f))
diff = subprocess.run(['git', '-C', wt, 'diff', '--', 'src', 'include'], capture_output=True, text=True).stdout
open(os.path.join(dst, 'patch.diff'), 'w').write(diff)
meta = {'property': prop, 'detected_by': [prop], 'needs_to_manifest': needs,
        'confirmed': {'repo_tests_with_change': '87 pass / same 6 always-fail (ctest in the scratch worktree)', 'demo_with_change': 'run.sh exit 1', 'demo_without_change': 'run.sh exit 0 (git apply -R demo/patch.diff, rebuilt; bin/confirm_seed.sh)'},
        'origin': 'independent sub-agent given only the property text and a scratch worktree'}
json.dump(meta, open(os.path.join(dst, 'meta.json'), 'w'), indent=1)
print('adopted', sid, os.listdir(dst))
