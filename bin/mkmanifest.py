#!/usr/bin/env python3
"""Regenerates MANIFEST.json from bin/registry.py (single source of truth)."""
import json, os, sys
ROOT = os.path.dirname(os.path.dirname(os.path.abspath(__file__)))
sys.path.insert(0, os.path.join(ROOT, 'bin'))
from registry import CHECKS, NOT_APPLICABLE, HOOK_COMMITS

props = [json.loads(l)['id'] for l in open(os.path.join(ROOT, 'properties.jsonl'))]
checks = []
for pid in props:
    if pid not in CHECKS: continue
    c = CHECKS[pid]
    checks.append({
        'property_id': pid,
        'quick_cmd': 'python3 bin/verif check %s --tier quick' % pid,
        'thorough_cmd': 'python3 bin/verif check %s --tier thorough' % pid,
        'evidence_file': '/verif/evidence/%s.json' % pid,
        'replay_cmd_template': 'python3 bin/verif replay {path}',
        'engine': c.get('engine', 'E-run'),
        'level_claimed': {'category': c['level'], 'text': c['level_text'], 'design_ref': c.get('design_ref', 'DESIGN.md section 3 (%s)' % pid)},
        'level_note': c['level_note'] + (' This check is cheap: the quick tier runs the full (thorough) enumeration too; where the rule text gives quick/thorough bounds the thorough ones apply to both.' if c.get('quick_is_thorough') else ''),
        'technique': c['technique'],
    })
na = [{'property_id': p, 'reason': NOT_APPLICABLE.get(p, 'check not built yet (framework under construction); will be claimed once its exhaustive harness runs clean end-to-end')} for p in props if p not in CHECKS]
m = {
    'version': 1,
    'setup_cmd': 'python3 bin/verif setup',
    'hooks': {
        'guard': 'GRAPHITE2_VERIF',
        'enable': 'the /verif Makefile compiles /repo/src/*.cpp directly with -DGRAPHITE2_VERIF (all build modes)',
        'baseline_off_cmd': 'cmake --build /repo/_build && ctest --test-dir /repo/_build -j8 --timeout 900',
        'source_commits': HOOK_COMMITS,
        'add_only': True,
    },
    'engines': [
        {'name': 'E-run', 'path': 'src/common', 'serves_properties': sorted(CHECKS), 'kind_free_text': 'fork-sharded exhaustive case enumerator over the real library (ASan/UBSan build from /repo working tree), guard-page buffers, memory face with borrow bookkeeping, confirm-by-replay'},
        {'name': 'E-ref', 'path': 'src/ref', 'serves_properties': sorted(CHECKS), 'kind_free_text': 'small executable reference models; every reference evaluation is compared with the implementation'},
    ],
    'checks': checks,
    'not_applicable': na,
    'notes': 'Model-checking family: every check is a bounded exhaustive enumeration (inputs, programs, API histories, schedules) executed on the real code; see DESIGN.md.',
}
json.dump(m, open(os.path.join(ROOT, 'MANIFEST.json'), 'w'), indent=1)
print('MANIFEST.json: %d checks, %d not claimed' % (len(checks), len(na)))
