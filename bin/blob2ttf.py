#!/usr/bin/env python3
"""blob2ttf.py <replay.json | FAIL-line file | hex> <out.ttf>: turns a stream-record blob into an sfnt for fontinfo/debugging."""
import sys, json, struct, os
sys.path.insert(0, os.path.join(os.path.dirname(os.path.dirname(os.path.abspath(__file__))), 'gen'))
from fontgen import sfnt
def record_tables(raw):
    p = 8; nm = struct.unpack('<I', raw[p:p+4])[0]; p += 4; meta = raw[p:p+nm]; p += nm
    nt = struct.unpack('<I', raw[p:p+4])[0]; p += 4; t = {}
    for _ in range(nt):
        tag = raw[p:p+4]; ln = struct.unpack('<I', raw[p+4:p+8])[0]; t[tag] = raw[p+8:p+8+ln]; p += 8 + ln
    return meta, t
if __name__ == '__main__':
    src = sys.argv[1]
    if os.path.exists(src):
        txt = open(src).read().strip()
        if txt.startswith('FAIL '): txt = txt.split('\n')[int(sys.argv[3]) if len(sys.argv) > 3 else 0][5:]
        d = json.loads(txt); hx = d['blob']
    else: hx = src
    meta, t = record_tables(bytes.fromhex(hx))
    open(sys.argv[2], 'wb').write(sfnt(t)); print(meta.decode())
