// Reference evaluator for the arithmetic/logic subset of the Graphite stack machine, written from the
// per-operation descriptions in doc/OpCodes.adoc on 32-bit two's-complement integers.
// Opcode numbering is frozen here (DESIGN 5.2): 0x3E = OR, 0x3F = AND.
#pragma once
#include <cstdint>
#include <vector>
#include <climits>

namespace ref {

enum VmOp : uint8_t {
    R_NOP = 0x00, R_PUSH_BYTE = 0x01, R_PUSH_BYTEU = 0x02, R_PUSH_SHORT = 0x03, R_PUSH_SHORTU = 0x04, R_PUSH_LONG = 0x05,
    R_ADD = 0x06, R_SUB = 0x07, R_MUL = 0x08, R_DIV = 0x09, R_MIN = 0x0A, R_MAX = 0x0B, R_NEG = 0x0C, R_TRUNC8 = 0x0D, R_TRUNC16 = 0x0E,
    R_COND = 0x0F, R_AND = 0x10, R_OR = 0x11, R_NOT = 0x12, R_EQUAL = 0x13, R_NOT_EQ = 0x14, R_LESS = 0x15, R_GTR = 0x16, R_LESS_EQ = 0x17, R_GTR_EQ = 0x18,
    R_POP_RET = 0x30, R_RET_ZERO = 0x31, R_RET_TRUE = 0x32,
    R_BITOR = 0x3E, R_BITAND = 0x3F, R_BITNOT = 0x40, R_BITSET = 0x41
};

struct VmResult { enum { OK, DIED, UNDERFLOW, NO_RETURN, BAD } st; int32_t value; size_t leftover; };

inline VmResult vm_eval(const uint8_t *p, size_t n) {
    std::vector<uint32_t> s; VmResult r = { VmResult::OK, 0, 0 };
    auto need = [&](size_t k) { return s.size() >= k; };
    size_t i = 0;
    while (i < n) {
        uint8_t op = p[i++];
        switch (op) {
        case R_NOP: break;
        case R_PUSH_BYTE: if (i + 1 > n) { r.st = VmResult::BAD; return r; } s.push_back(uint32_t(int32_t(int8_t(p[i])))); i += 1; break;
        case R_PUSH_BYTEU: if (i + 1 > n) { r.st = VmResult::BAD; return r; } s.push_back(p[i]); i += 1; break;
        case R_PUSH_SHORT: if (i + 2 > n) { r.st = VmResult::BAD; return r; } s.push_back(uint32_t(int32_t(int16_t((p[i] << 8) | p[i+1])))); i += 2; break;
        case R_PUSH_SHORTU: if (i + 2 > n) { r.st = VmResult::BAD; return r; } s.push_back(uint32_t((p[i] << 8) | p[i+1])); i += 2; break;
        case R_PUSH_LONG: if (i + 4 > n) { r.st = VmResult::BAD; return r; } s.push_back((uint32_t(p[i]) << 24) | (uint32_t(p[i+1]) << 16) | (uint32_t(p[i+2]) << 8) | p[i+3]); i += 4; break;
        case R_ADD: case R_SUB: case R_MUL: case R_DIV: case R_MIN: case R_MAX: case R_AND: case R_OR: case R_EQUAL: case R_NOT_EQ:
        case R_LESS: case R_GTR: case R_LESS_EQ: case R_GTR_EQ: case R_BITOR: case R_BITAND: {
            if (!need(2)) { r.st = VmResult::UNDERFLOW; return r; }
            uint32_t top = s.back(); s.pop_back(); uint32_t sec = s.back(); s.pop_back(); uint32_t v = 0;
            int32_t a = int32_t(sec), b = int32_t(top);       // a = second item, b = top-most
            switch (op) {
            case R_ADD: v = sec + top; break;
            case R_SUB: v = sec - top; break;                  // subtract top-most from the next
            case R_MUL: v = sec * top; break;
            case R_DIV: if (b == 0 || (a == INT_MIN && b == -1)) { r.st = VmResult::DIED; return r; } v = uint32_t(a / b); break;
            case R_MIN: v = uint32_t(a < b ? a : b); break;
            case R_MAX: v = uint32_t(a > b ? a : b); break;
            case R_AND: v = (sec != 0 && top != 0); break;
            case R_OR: v = (sec != 0 || top != 0); break;
            case R_EQUAL: v = sec == top; break;
            case R_NOT_EQ: v = sec != top; break;
            case R_LESS: v = a < b; break;                     // 2nd less than 1st
            case R_GTR: v = a > b; break;
            case R_LESS_EQ: v = a <= b; break;
            case R_GTR_EQ: v = a >= b; break;
            case R_BITOR: v = sec | top; break;
            case R_BITAND: v = sec & top; break;
            }
            s.push_back(v); break; }
        case R_NEG: if (!need(1)) { r.st = VmResult::UNDERFLOW; return r; } s.back() = 0u - s.back(); break;
        case R_TRUNC8: if (!need(1)) { r.st = VmResult::UNDERFLOW; return r; } s.back() &= 0xFF; break;
        case R_TRUNC16: if (!need(1)) { r.st = VmResult::UNDERFLOW; return r; } s.back() &= 0xFFFF; break;
        case R_NOT: if (!need(1)) { r.st = VmResult::UNDERFLOW; return r; } s.back() = s.back() == 0; break;
        case R_BITNOT: if (!need(1)) { r.st = VmResult::UNDERFLOW; return r; } s.back() = ~s.back(); break;
        case R_BITSET: { if (i + 4 > n) { r.st = VmResult::BAD; return r; } if (!need(1)) { r.st = VmResult::UNDERFLOW; return r; }
            uint32_t m = (p[i] << 8) | p[i+1], v = (p[i+2] << 8) | p[i+3]; i += 4; s.back() = (s.back() & ~m) | v; break; }
        case R_COND: { if (!need(3)) { r.st = VmResult::UNDERFLOW; return r; }
            uint32_t f = s.back(); s.pop_back(); uint32_t t = s.back(); s.pop_back(); uint32_t c = s.back(); s.pop_back(); s.push_back(c ? t : f); break; }
        case R_POP_RET: if (!need(1)) { r.st = VmResult::UNDERFLOW; return r; } r.value = int32_t(s.back()); s.pop_back(); r.leftover = s.size(); return r;
        case R_RET_ZERO: r.value = 0; r.leftover = s.size(); return r;
        case R_RET_TRUE: r.value = 1; r.leftover = s.size(); return r;
        default: r.st = VmResult::BAD; return r;
        }
    }
    r.st = VmResult::NO_RETURN; return r;
}

} // namespace ref
