// Reference readers for Feat / Sill / name tables and the plain-array feature-vector model (C18).
#pragma once
#include "cmap_ref.hpp"
#include <string>

namespace ref {

struct FeatDef { uint32_t id; uint16_t flags, nameid; std::vector<uint16_t> values; std::vector<uint16_t> labels; bool any; uint32_t maxv; uint16_t defv; };
struct LangDef { uint32_t tag; std::vector<std::pair<uint32_t, uint16_t>> settings; };

inline bool read_feat(const Bytes &b, std::vector<FeatDef> &out) {
    out.clear(); if (b.size() < 12) return b.empty();
    uint32_t ver = rd32(b, 0); unsigned n = rd16(b, 4); size_t p = 12;
    for (unsigned i = 0; i < n; ++i) {
        FeatDef f; unsigned ns; uint32_t so;
        if (ver >= 0x00020000) { f.id = rd32(b, p); ns = rd16(b, p + 4); so = rd32(b, p + 8); f.flags = rd16(b, p + 12); f.nameid = rd16(b, p + 14); p += 16; }
        else { f.id = rd16(b, p); ns = rd16(b, p + 2); so = rd32(b, p + 4); f.flags = rd16(b, p + 8); f.nameid = rd16(b, p + 10); p += 12; }
        f.any = ns == 0; f.maxv = 0; f.defv = 0;
        for (unsigned k = 0; k < ns; ++k) { uint16_t v = rd16(b, so + 4 * k); f.values.push_back(v); f.labels.push_back(rd16(b, so + 4 * k + 2)); if (v > f.maxv) f.maxv = v; }
        if (ns) f.defv = f.values[0];
        out.push_back(f);
    }
    return true;
}
inline bool read_sill(const Bytes &b, std::vector<LangDef> &out) {
    out.clear(); if (b.size() < 12) return b.empty();
    unsigned n = rd16(b, 4); size_t p = 12;
    for (unsigned i = 0; i < n; ++i, p += 8) {
        LangDef l; l.tag = rd32(b, p); unsigned ns = rd16(b, p + 4), off = rd16(b, p + 6);
        for (unsigned k = 0; k < ns; ++k) l.settings.push_back({ rd32(b, off + 8 * k), rd16(b, off + 8 * k + 4) });
        out.push_back(l);
    }
    return true;
}

struct NameRec { uint16_t plat, enc, lang, nameid; std::vector<uint16_t> utf16; };
inline void read_names(const Bytes &b, std::vector<NameRec> &out) {
    out.clear(); if (b.size() < 6) return;
    unsigned n = rd16(b, 2), so = rd16(b, 4);
    for (unsigned i = 0; i < n; ++i) { size_t p = 6 + 12 * i; NameRec r; r.plat = rd16(b, p); r.enc = rd16(b, p + 2); r.lang = rd16(b, p + 4); r.nameid = rd16(b, p + 6);
        unsigned len = rd16(b, p + 8), off = rd16(b, p + 10); for (unsigned k = 0; k + 1 < len + 1 && k + 2 <= len; k += 2) r.utf16.push_back(rd16(b, so + off + k)); out.push_back(r); }
}
// documented fallback: exact language, else same primary language (low byte), else en-US, else any record of that name id
inline const NameRec *pick_name(const std::vector<NameRec> &names, uint16_t nameid, uint16_t lang, bool *ambiguous) {
    const NameRec *exact = nullptr, *prim = nullptr, *en = nullptr, *any = nullptr; int nprim = 0, nany = 0; *ambiguous = false;
    for (size_t i = 0; i < names.size(); ++i) { const NameRec &r = names[i];
        if (r.plat != 3 || r.enc != 1 || r.nameid != nameid) continue;
        if (i == 0) { *ambiguous = true; continue; }                 // record 0 is not retrievable (DESIGN 7.6): leave such fonts undecided
        if (r.lang == lang) { if (!exact) exact = &r; }
        else if ((r.lang & 0xFF) == (lang & 0xFF)) { prim = &r; ++nprim; }
        else if (r.lang == 0x409) en = &r;
        else { any = &r; ++nany; } }
    if (exact) return exact;
    if (prim) { if (nprim > 1) *ambiguous = true; return prim; }
    if (en) return en;
    if (nany > 1) *ambiguous = true;
    return any;
}

} // namespace ref
