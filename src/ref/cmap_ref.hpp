// Reference cmap lookup written from the OpenType 'cmap' specification and the rule stated in C13:
// format 12 for supplementary-plane characters, format 4 for the BMP, 0 when unmapped.
// Also a small cmap / Silf pseudo-map reader and cmap builders.  Shares no code with /repo.
#pragma once
#include <cstdint>
#include <cstddef>
#include <vector>
#include <map>

namespace ref {

typedef std::vector<uint8_t> Bytes;
inline uint32_t rd32(const Bytes &b, size_t o) { return o + 4 <= b.size() ? (uint32_t(b[o])<<24)|(uint32_t(b[o+1])<<16)|(uint32_t(b[o+2])<<8)|b[o+3] : 0; }
inline uint16_t rd16(const Bytes &b, size_t o) { return o + 2 <= b.size() ? uint16_t((b[o]<<8)|b[o+1]) : 0; }

struct CmapRef {
    const Bytes *cm = nullptr; size_t bmp = 0, smp = 0;   // offsets of chosen subtables (0 = none)
    // pick subtables by the documented preference orders
    void choose(const Bytes &cmap) {
        cm = &cmap; bmp = smp = 0;
        static const int pb[5][2] = { {3,1}, {0,3}, {0,2}, {0,1}, {0,0} };
        static const int ps[2][2] = { {3,10}, {0,4} };
        unsigned n = rd16(cmap, 2);
        for (auto &pe : pb) { size_t o = find(n, pe[0], pe[1]); if (o && rd16(cmap, o) == 4) { bmp = o; break; } }
        for (auto &pe : ps) { size_t o = find(n, pe[0], pe[1]); if (o && rd16(cmap, o) == 12) { smp = o; break; } }
    }
    size_t find(unsigned n, int plat, int enc) const {
        for (unsigned i = 0; i < n; ++i) { size_t r = 4 + 8 * i; if (rd16(*cm, r) == plat && rd16(*cm, r + 2) == enc) return rd32(*cm, r + 4); }
        return 0;
    }
    uint16_t lookup4(uint32_t cp) const {
        if (!bmp || cp > 0xFFFF) return 0;
        const Bytes &b = *cm; size_t t = bmp; unsigned segx2 = rd16(b, t + 6), nseg = segx2 / 2; unsigned tlen = rd16(b, t + 2);
        size_t endc = t + 14, startc = endc + segx2 + 2, delta = startc + segx2, roff = delta + segx2;
        for (unsigned i = 0; i < nseg; ++i) {
            if (rd16(b, endc + 2 * i) >= cp) {
                unsigned st = rd16(b, startc + 2 * i);
                if (st > cp) return 0;
                unsigned d = rd16(b, delta + 2 * i), ro = rd16(b, roff + 2 * i);
                if (ro == 0) return uint16_t(cp + d);
                size_t at = roff + 2 * i + ro + 2 * (cp - st);
                if (at + 2 > t + tlen) return 0;          // outside the subtable: unmapped
                unsigned g = rd16(b, at);
                return g ? uint16_t(g + d) : 0;
            }
        }
        return 0;
    }
    uint16_t lookup12(uint32_t cp) const {
        if (!smp) return 0;
        const Bytes &b = *cm; size_t t = smp; uint32_t ng = rd32(b, t + 12);
        for (uint32_t i = 0; i < ng; ++i) { uint32_t s = rd32(b, t + 16 + 12 * i), e = rd32(b, t + 20 + 12 * i); if (cp >= s && cp <= e) return uint16_t(rd32(b, t + 24 + 12 * i) + (cp - s)); }
        return 0;
    }
    uint16_t lookup(uint32_t cp) const { return cp > 0xFFFF ? lookup12(cp) : lookup4(cp); }
    // Same semantics for an ascending range [lo,hi): the "first segment whose endCode >= cp" / "group containing cp"
    // index only moves forward when endCodes / groups are sorted (checked; otherwise falls back to the per-point scan).
    void lookup_range(uint32_t lo, uint32_t hi, uint16_t *out) const {
        const Bytes &b = *cm;
        bool sorted4 = true, sorted12 = true;
        unsigned nseg = bmp ? rd16(b, bmp + 6) / 2 : 0; uint32_t ng = smp ? rd32(b, smp + 12) : 0;
        for (unsigned i = 1; i < nseg; ++i) if (rd16(b, bmp + 14 + 2 * i) <= rd16(b, bmp + 14 + 2 * (i - 1))) sorted4 = false;
        for (uint32_t i = 1; i < ng; ++i) if (rd32(b, smp + 16 + 12 * i) <= rd32(b, smp + 20 + 12 * (i - 1))) sorted12 = false;
        unsigned si = 0; uint32_t gi = 0;
        for (uint32_t cp = lo; cp < hi; ++cp) {
            uint16_t r = 0;
            if (cp <= 0xFFFF) {
                if (!sorted4) r = lookup4(cp);
                else if (bmp) {
                    size_t t = bmp, endc = t + 14, segx2 = nseg * 2, startc = endc + segx2 + 2, delta = startc + segx2, roff = delta + segx2; unsigned tlen = rd16(b, t + 2);
                    while (si < nseg && rd16(b, endc + 2 * si) < cp) ++si;
                    if (si < nseg) { unsigned st = rd16(b, startc + 2 * si);
                        if (st <= cp) { unsigned d = rd16(b, delta + 2 * si), ro = rd16(b, roff + 2 * si);
                            if (ro == 0) r = uint16_t(cp + d);
                            else { size_t at = roff + 2 * si + ro + 2 * (cp - st); if (at + 2 <= t + tlen) { unsigned g = rd16(b, at); r = g ? uint16_t(g + d) : 0; } } } }
                }
            } else if (cp <= 0x10FFFF) {
                if (!sorted12) r = lookup12(cp);
                else if (smp) { while (gi < ng && rd32(b, smp + 20 + 12 * gi) < cp) ++gi;
                    if (gi < ng && rd32(b, smp + 16 + 12 * gi) <= cp) r = uint16_t(rd32(b, smp + 24 + 12 * gi) + (cp - rd32(b, smp + 16 + 12 * gi))); }
            }
            out[cp - lo] = r;
        }
    }
};

// Silf pseudo map of the first sub-table (uncompressed tables only); returns false if it cannot be read
inline bool silf_pseudos(const Bytes &s, std::map<uint32_t, uint16_t> &out) {
    out.clear(); if (s.size() < 20) return false;
    uint32_t ver = rd32(s, 0); size_t p = 4;
    if (ver >= 0x00030000) p += 4;
    if (ver >= 0x00050000 && (rd32(s, 4) >> 27)) return false;       // compressed
    unsigned nsub = rd16(s, p); p += 4; if (!nsub) return false;
    size_t sub = rd32(s, p); size_t q = sub + (ver >= 0x00030000 ? 8 : 0);   // v3+: ruleVersion, passOffset, pseudosOffset precede the common header
    {
        q += 6; unsigned numPasses = s.size() > q ? s[q] : 0; q += 1 + 5 + 2 + 5;
        unsigned nj = s.size() > q ? s[q] : 0; q += 1 + 8 * nj; q += 2 + 1 + 1 + 1 + 1 + 3;
        unsigned ncf = s.size() > q ? s[q] : 0; q += 1 + 2 * ncf; q += 1;
        unsigned nst = s.size() > q ? s[q] : 0; q += 1 + 4 * nst; q += 2; q += 4 * (numPasses + 1);
    }
    if (q + 8 > s.size()) return false;
    unsigned np = rd16(s, q); q += 8;
    for (unsigned i = 0; i < np; ++i, q += 6) { if (q + 6 > s.size()) return false; out[rd32(s, q)] = rd16(s, q + 4); }
    return true;
}

// ---------- builders ----------
inline void w16(Bytes &b, uint32_t v) { b.push_back(uint8_t(v >> 8)); b.push_back(uint8_t(v)); }
inline void w32(Bytes &b, uint32_t v) { w16(b, v >> 16); w16(b, v & 0xFFFF); }

struct Seg4 { uint16_t start, end; uint16_t delta; bool use_array; std::vector<uint16_t> arr; };   // arr has end-start+1 entries when use_array
inline Bytes build_fmt4(const std::vector<Seg4> &segs) {
    unsigned n = segs.size(); Bytes b; w16(b, 4); w16(b, 0); w16(b, 0); w16(b, n * 2);
    unsigned sr = 1, es = 0; while (sr * 2 <= n) { sr *= 2; ++es; }
    w16(b, sr * 2); w16(b, es); w16(b, n * 2 - sr * 2);
    for (auto &s : segs) w16(b, s.end); w16(b, 0);
    for (auto &s : segs) w16(b, s.start);
    for (auto &s : segs) w16(b, s.delta);
    // glyphIdArray laid out after the idRangeOffset array, in segment order
    size_t arr_off = 0; std::vector<size_t> offs(n, 0);
    for (unsigned i = 0; i < n; ++i) if (segs[i].use_array) { offs[i] = (n - i) * 2 + arr_off; arr_off += segs[i].arr.size() * 2; }
    for (unsigned i = 0; i < n; ++i) w16(b, uint32_t(offs[i]));
    for (auto &s : segs) if (s.use_array) for (uint16_t g : s.arr) w16(b, g);
    b[2] = uint8_t(b.size() >> 8); b[3] = uint8_t(b.size());
    return b;
}
struct Grp12 { uint32_t start, end, gid; };
inline Bytes build_fmt12(const std::vector<Grp12> &g) {
    Bytes b; w16(b, 12); w16(b, 0); w32(b, 16 + 12 * g.size()); w32(b, 0); w32(b, g.size());
    for (auto &x : g) { w32(b, x.start); w32(b, x.end); w32(b, x.gid); }
    return b;
}
struct EncRec { int plat, enc; Bytes sub; };
// records must be given sorted by (platform, encoding); subtables are laid out in record order
// reversed_data: the subtables are stored in the opposite order of their encoding records (records stay sorted; OpenType does not tie the two orders)
inline Bytes build_cmap(const std::vector<EncRec> &recs, bool reversed_data = false) {
    Bytes b; w16(b, 0); w16(b, recs.size()); size_t off = 4 + 8 * recs.size(); std::vector<size_t> offs(recs.size());
    if (!reversed_data) for (size_t i = 0; i < recs.size(); ++i) { offs[i] = off; off += recs[i].sub.size(); }
    else for (size_t i = recs.size(); i-- > 0; ) { offs[i] = off; off += recs[i].sub.size(); }
    for (size_t i = 0; i < recs.size(); ++i) { w16(b, recs[i].plat); w16(b, recs[i].enc); w32(b, uint32_t(offs[i])); }
    if (!reversed_data) for (auto &r : recs) b.insert(b.end(), r.sub.begin(), r.sub.end());
    else for (size_t i = recs.size(); i-- > 0; ) b.insert(b.end(), recs[i].sub.begin(), recs[i].sub.end());
    return b;
}

} // namespace ref
