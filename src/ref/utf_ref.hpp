// Reference UTF-8/16/32 decoder written from Unicode ch.3 (D92, Table 3-7); shares no code with /repo.
#pragma once
#include <cstdint>
#include <cstddef>
#include <vector>

namespace ref {

struct Decoded {
    uint32_t usv;        // scalar value, or 0xFFFD for an ill-formed sequence
    size_t   offset;     // code-unit offset of the first unit
    unsigned units;      // number of code units consumed
    bool     ok;         // well-formed
    bool     surrogate;  // an encoded surrogate code point (UTF-8 ED A0..BF xx, UTF-32 D800..DFFF): left unspecified
    bool     truncated;  // a valid prefix cut by the end of the buffer
};

// Decode one UTF-8 sequence at p[0..n). n>0. Strict Table 3-7, except that encoded surrogates are
// decoded and flagged (see DESIGN 5.1).
inline Decoded dec8(const uint8_t *p, size_t n, size_t off) {
    Decoded d = { 0xFFFD, off, 1, false, false, false };
    uint8_t b0 = p[0];
    if (b0 < 0x80) { d.usv = b0; d.ok = true; return d; }
    unsigned need; uint32_t cp; uint8_t lo = 0x80, hi = 0xBF;
    if (b0 >= 0xC2 && b0 <= 0xDF) { need = 1; cp = b0 & 0x1F; }
    else if (b0 >= 0xE0 && b0 <= 0xEF) { need = 2; cp = b0 & 0x0F; if (b0 == 0xE0) lo = 0xA0; }
    else if (b0 >= 0xF0 && b0 <= 0xF4) { need = 3; cp = b0 & 0x07; if (b0 == 0xF0) lo = 0x90; if (b0 == 0xF4) hi = 0x8F; }
    else return d;   // 80..C1, F5..FF
    for (unsigned i = 1; i <= need; ++i) {
        if (i >= n) { d.truncated = true; d.units = unsigned(n); return d; }
        uint8_t b = p[i];
        uint8_t l = (i == 1) ? lo : 0x80, h = (i == 1) ? hi : 0xBF;
        if (b < l || b > h) { return d; }
        cp = (cp << 6) | (b & 0x3F);
    }
    d.units = need + 1; d.usv = cp; d.ok = true;
    if (cp >= 0xD800 && cp <= 0xDFFF) d.surrogate = true;
    return d;
}

inline Decoded dec16(const uint16_t *p, size_t n, size_t off) {
    Decoded d = { 0xFFFD, off, 1, false, false, false };
    uint16_t u = p[0];
    if (u < 0xD800 || u > 0xDFFF) { d.usv = u; d.ok = true; return d; }
    if (u >= 0xDC00) return d;                    // lone low surrogate
    if (n < 2) { d.truncated = true; return d; }  // high surrogate at end
    uint16_t v = p[1];
    if (v < 0xDC00 || v > 0xDFFF) return d;
    d.usv = 0x10000 + ((uint32_t(u) - 0xD800) << 10) + (v - 0xDC00); d.units = 2; d.ok = true; return d;
}

inline Decoded dec32(const uint32_t *p, size_t, size_t off) {
    Decoded d = { 0xFFFD, off, 1, false, false, false };
    uint32_t u = p[0];
    if (u > 0x10FFFF) return d;
    d.usv = u; d.ok = true; if (u >= 0xD800 && u <= 0xDFFF) d.surrogate = true; return d;
}

// encoders for building test texts
inline void enc8(uint32_t c, std::vector<uint8_t> &o) {
    if (c < 0x80) o.push_back(uint8_t(c));
    else if (c < 0x800) { o.push_back(uint8_t(0xC0 | (c >> 6))); o.push_back(uint8_t(0x80 | (c & 0x3F))); }
    else if (c < 0x10000) { o.push_back(uint8_t(0xE0 | (c >> 12))); o.push_back(uint8_t(0x80 | ((c >> 6) & 0x3F))); o.push_back(uint8_t(0x80 | (c & 0x3F))); }
    else { o.push_back(uint8_t(0xF0 | (c >> 18))); o.push_back(uint8_t(0x80 | ((c >> 12) & 0x3F))); o.push_back(uint8_t(0x80 | ((c >> 6) & 0x3F))); o.push_back(uint8_t(0x80 | (c & 0x3F))); }
}
inline void enc16(uint32_t c, std::vector<uint16_t> &o) {
    if (c < 0x10000) o.push_back(uint16_t(c));
    else { c -= 0x10000; o.push_back(uint16_t(0xD800 + (c >> 10))); o.push_back(uint16_t(0xDC00 + (c & 0x3FF))); }
}

} // namespace ref
