// Reference LZ4 block decoder (byte at a time, from the LZ4 block format description) and a tiny block builder.
#pragma once
#include <cstdint>
#include <vector>

namespace ref {

struct Lz4Result { bool ok; std::vector<uint8_t> out; bool end_rules; };   // end_rules: last 5 bytes literal, last match starts >= 12 bytes before the end of output

// Lenient about the end-of-block rules (they are reported separately), strict about everything that makes decoding impossible.
inline Lz4Result lz4_decode(const uint8_t *p, size_t n, size_t max_out = (1u << 26)) {
    Lz4Result r; r.ok = false; r.end_rules = true; size_t i = 0; size_t last_match_end = 0; bool had_match = false; size_t last_match_start = 0;
    if (n == 0) return r;
    for (;;) {
        if (i >= n) return r;                       // a block ends with a (possibly empty) literal run, never after a match
        uint8_t tok = p[i++]; size_t ll = tok >> 4;
        if (ll == 15) { uint8_t b; do { if (i >= n) return r; b = p[i++]; ll += b; } while (b == 255); }
        if (i + ll > n) return r;
        if (r.out.size() + ll > max_out) return r;
        r.out.insert(r.out.end(), p + i, p + i + ll); i += ll;
        if (i == n) {                                // last sequence: literals only
            if ((tok & 15) != 0) { /* match length nibble set on the final sequence: tolerated */ }
            r.ok = true;
            if (had_match) { if (r.out.size() - last_match_end < 5) r.end_rules = false; if (r.out.size() - last_match_start < 12) r.end_rules = false; }
            return r;
        }
        if (i + 2 > n) return r;
        size_t off = p[i] | (size_t(p[i + 1]) << 8); i += 2;
        size_t ml = (tok & 15);
        if (ml == 15) { uint8_t b; do { if (i >= n) return r; b = p[i++]; ml += b; } while (b == 255); }
        ml += 4;
        if (off == 0 || off > r.out.size()) return r;
        if (r.out.size() + ml > max_out) return r;
        last_match_start = r.out.size(); had_match = true;
        size_t from = r.out.size() - off; for (size_t k = 0; k < ml; ++k) r.out.push_back(r.out[from + k]);
        last_match_end = r.out.size();
    }
}

struct Lz4Seq { size_t lit; size_t match; size_t off; };   // match == 0: final literals only
inline void lz4_emit_len(std::vector<uint8_t> &b, size_t extra) { while (extra >= 255) { b.push_back(255); extra -= 255; } b.push_back(uint8_t(extra)); }
inline std::vector<uint8_t> lz4_build(const std::vector<Lz4Seq> &seqs, uint8_t seed = 3) {
    std::vector<uint8_t> b; uint8_t v = seed;
    for (auto &s : seqs) {
        size_t ml = s.match ? s.match - 4 : 0;
        b.push_back(uint8_t((s.lit >= 15 ? 15 : s.lit) << 4 | (s.match ? (ml >= 15 ? 15 : ml) : 0)));
        if (s.lit >= 15) lz4_emit_len(b, s.lit - 15);
        for (size_t k = 0; k < s.lit; ++k) { b.push_back(v); v = uint8_t(v * 7 + 3); }
        if (s.match) { b.push_back(uint8_t(s.off)); b.push_back(uint8_t(s.off >> 8)); if (ml >= 15) lz4_emit_len(b, ml - 15); }
    }
    return b;
}

} // namespace ref
