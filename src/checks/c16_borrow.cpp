// C16: table callbacks follow strict borrow discipline; nothing is leaked.
// (a) explicit-state BFS over API histories (create / shape / label / justify / destroy in every order that respects
//     ownership) on a memory face whose get_table hands out fresh exact-size copies and tracks outstanding borrows;
// (b) environment deviations: every table x {absent, length 0, length 3} x {release fn, no release fn} x options.
#include <dirent.h>
#include <sys/stat.h>
#include <unistd.h>
#include "common/corpus.hpp"
#include "common/segcheck.hpp"
#include <deque>
using namespace vf;

struct Root { std::string font; unsigned opts; bool no_release; };
static std::vector<Root> g_roots; static bool g_thor;
static const char *TEXTS[3] = { "ab", "a\xCC\x81 c", "de" };

struct World {
    TableSet ts; MemFace mf; gr_face *face = nullptr; gr_font *font = nullptr; gr_segment *seg[2] = { nullptr, nullptr }; int segp[2] = { 0, 0 };
    gr_feature_val *fv[2] = { nullptr, nullptr }; int fvp[2] = { 0, 0 }; void *label = nullptr; unsigned long gets_at_load = 0; bool face_failed = false;
    std::string key() const { std::string k; appf(k, "F%d f%d S", face ? 1 : 0, font ? 1 : 0); int a = seg[0] ? segp[0] : -1, b = seg[1] ? segp[1] : -1; if (a > b) std::swap(a, b); appf(k, "%d,%d V", a, b);
        int c = fv[0] ? fvp[0] : -1, d = fv[1] ? fvp[1] : -1; if (c > d) std::swap(c, d); appf(k, "%d,%d L%d O", c, d, label ? 1 : 0);
        std::multiset<uint32_t> tags; for (auto &kv : mf.outstanding) tags.insert(kv.second); for (uint32_t t : tags) k += tagstr(t); return k; }
};
// operation codes
enum { OP_FONT, OP_SEG0, /* 12 variants: text(3) x dir(2) x font(2) */ OP_FVAL = OP_SEG0 + 12, /* lang 0,1 */ OP_CLONE = OP_FVAL + 2, OP_LABEL, /* enc 3 */ OP_VLABEL = OP_LABEL + 3, OP_JUSTIFY, OP_BREAK, OP_SUPPORTED, OP_INFO,
       OP_D_FONT, OP_D_SEG0, OP_D_SEG1, OP_D_FV0, OP_D_FV1, OP_D_LABEL, OP_D_FACE, NOPS };
static const char *opname(int o) { static char b[32]; if (o == OP_FONT) return "font"; if (o >= OP_SEG0 && o < OP_FVAL) { snprintf(b, sizeof b, "seg(t%d,d%d,f%d)", (o - OP_SEG0) / 4, (o - OP_SEG0) / 2 % 2, (o - OP_SEG0) % 2); return b; }
    if (o >= OP_FVAL && o < OP_CLONE) return o == OP_FVAL ? "fval(default)" : "fval(lang0)"; if (o == OP_CLONE) return "fval_clone"; if (o >= OP_LABEL && o < OP_VLABEL) return "label"; if (o == OP_VLABEL) return "value_label";
    if (o == OP_JUSTIFY) return "justify"; if (o == OP_BREAK) return "linebreak"; if (o == OP_SUPPORTED) return "is_char_supported"; if (o == OP_INFO) return "face_info"; if (o == OP_D_FONT) return "destroy(font)";
    if (o == OP_D_SEG0) return "destroy(seg0)"; if (o == OP_D_SEG1) return "destroy(seg1)"; if (o == OP_D_FV0) return "destroy(fval0)"; if (o == OP_D_FV1) return "destroy(fval1)"; if (o == OP_D_LABEL) return "destroy(label)"; if (o == OP_D_FACE) return "destroy(face)"; return "?"; }

static bool enabled(const World &w, int o) {
    if (o == OP_FONT) return w.face && !w.font;
    if (o >= OP_SEG0 && o < OP_FVAL) { if (!w.face || (w.seg[0] && w.seg[1])) return false; if ((o - OP_SEG0) % 2 && !w.font) return false; return true; }
    if (o >= OP_FVAL && o < OP_CLONE) return w.face && (!w.fv[0] || !w.fv[1]) && (o == OP_FVAL || gr_face_n_languages(w.face) > 0);
    if (o == OP_CLONE) return (w.fv[0] != nullptr) != (w.fv[1] != nullptr);
    if (o >= OP_LABEL && o <= OP_VLABEL) return w.face && !w.label && gr_face_n_fref(w.face) > 0;
    if (o == OP_JUSTIFY || o == OP_BREAK) return w.seg[0] != nullptr;
    if (o == OP_SUPPORTED || o == OP_INFO) return w.face != nullptr;
    if (o == OP_D_FONT) return w.font && !(w.seg[0] && (w.segp[0] & 1)) && !(w.seg[1] && (w.segp[1] & 1));     // a font outlives the segments made with it
    if (o == OP_D_SEG0) return w.seg[0]; if (o == OP_D_SEG1) return w.seg[1]; if (o == OP_D_FV0) return w.fv[0]; if (o == OP_D_FV1) return w.fv[1]; if (o == OP_D_LABEL) return w.label;
    if (o == OP_D_FACE) return w.face && !w.font && !w.seg[0] && !w.seg[1];     // fonts and segments do not outlive the face; feature values and labels may
    return false;
}
static void apply(World &w, int o) {
    if (o == OP_FONT) w.font = gr_make_font(12.f, w.face);
    else if (o >= OP_SEG0 && o < OP_FVAL) { int v = o - OP_SEG0, t = v / 4, d = v / 2 % 2, f = v % 2; int k = w.seg[0] ? 1 : 0; const char *tx = TEXTS[t];
        w.seg[k] = gr_make_seg(f ? w.font : nullptr, w.face, 0, w.fv[0], gr_utf8, tx, utf8_count(tx), d); w.segp[k] = v; if (w.seg[k]) { std::string dmp = dump_segment(w.seg[k]); (void)dmp; } }
    else if (o >= OP_FVAL && o < OP_CLONE) { int k = w.fv[0] ? 1 : 0; w.fv[k] = gr_face_featureval_for_lang(w.face, o == OP_FVAL ? 0 : gr_face_lang_by_index(w.face, 0)); w.fvp[k] = o - OP_FVAL; }
    else if (o == OP_CLONE) { int s = w.fv[0] ? 0 : 1; w.fv[1 - s] = gr_featureval_clone(w.fv[s]); w.fvp[1 - s] = w.fvp[s] + 2; }
    else if (o >= OP_LABEL && o < OP_VLABEL) { static const gr_encform e[3] = { gr_utf8, gr_utf16, gr_utf32 }; uint16_t l = 0x409; uint32_t n; w.label = gr_fref_label(gr_face_fref(w.face, 0), &l, e[o - OP_LABEL], &n); }
    else if (o == OP_VLABEL) { uint16_t l = 0x409; uint32_t n; w.label = gr_fref_value_label(gr_face_fref(w.face, 0), 0, &l, gr_utf8, &n); }
    else if (o == OP_JUSTIFY) { gr_seg_justify(w.seg[0], gr_seg_first_slot(w.seg[0]), (w.segp[0] & 1) ? w.font : nullptr, 2000.0, gr_justCompleteLine, nullptr, nullptr); }
    else if (o == OP_BREAK) { const gr_slot *s = gr_seg_first_slot(w.seg[0]); if (s) s = gr_slot_next_in_segment(s); if (s && gr_slot_prev_in_segment(s)) gr_slot_linebreak_before(const_cast<gr_slot*>(s)); }
    else if (o == OP_SUPPORTED) { volatile int r = gr_face_is_char_supported(w.face, 0x61, 0) + gr_face_is_char_supported(w.face, 0x10000, 0); (void)r; }
    else if (o == OP_INFO) { std::string d = dump_face(w.face); (void)d; }
    else if (o == OP_D_FONT) { gr_font_destroy(w.font); w.font = nullptr; }
    else if (o == OP_D_SEG0 || o == OP_D_SEG1) { int k = o - OP_D_SEG0; gr_seg_destroy(w.seg[k]); w.seg[k] = nullptr; }
    else if (o == OP_D_FV0 || o == OP_D_FV1) { int k = o - OP_D_FV0; gr_featureval_destroy(w.fv[k]); w.fv[k] = nullptr; }
    else if (o == OP_D_LABEL) { gr_label_destroy(w.label); w.label = nullptr; }
    else if (o == OP_D_FACE) { gr_face_destroy(w.face); w.face = nullptr; }
}
static void close_world(World &w) {   // destroy what is left in a legal order
    for (int k = 0; k < 2; ++k) if (w.seg[k]) { gr_seg_destroy(w.seg[k]); w.seg[k] = nullptr; }
    if (w.font) { gr_font_destroy(w.font); w.font = nullptr; } if (w.face) { gr_face_destroy(w.face); w.face = nullptr; }
    for (int k = 0; k < 2; ++k) if (w.fv[k]) { gr_featureval_destroy(w.fv[k]); w.fv[k] = nullptr; } if (w.label) { gr_label_destroy(w.label); w.label = nullptr; }
}

static void setup_bfs(Runner &r, const Tier &t) {
    g_thor = t.thorough; g_roots.clear();
    std::vector<std::string> fonts = { gen_dir() + "/s_min.ttf", gen_dir() + "/s_full.ttf", gen_dir() + "/s_full_z.ttf", font_path("small.ttf") }; if (t.thorough) fonts.push_back(font_path("Padauk.ttf"));
    for (auto &f : fonts) for (unsigned o : { 0u, 2u, 4u, 6u, 7u }) for (int nr = 0; nr < 2; ++nr) g_roots.push_back({ f, o, nr == 1 });
    r.ncases = g_roots.size(); r.case_alarm_s = unsigned(r.deadline_s) + 600;
    r.describe = [](uint64_t i) { JObj o; o.kv("font", g_roots[i].font).kv("face_options", g_roots[i].opts).kv("release_fn", !g_roots[i].no_release).kv("search", "BFS over API histories after gr_make_face, deduplicated on (live objects, outstanding table borrows)"); return o; };
    r.body = [](uint64_t ci, ShardCtl &ctl) {
        const Root &rt = g_roots[ci]; int depth = g_thor ? (rt.font.find("Padauk") != std::string::npos ? 4 : 7) : 5;
        struct Node { std::vector<int> hist; };
        std::set<std::string> seen; std::deque<Node> q; q.push_back({ {} }); uint64_t states = 0, trans = 0; bool failed = false; TableSet ts; ts.from_file(rt.font);
        auto fail = [&](const std::vector<int> &h, const std::string &why) { std::string hs; for (int o : h) { hs += opname(o); hs += ' '; } JObj o; o.kv("font", rt.font).kv("face_options", rt.opts).kv("release_fn", !rt.no_release).kv("kind", "borrow_discipline").kv("why", why).kv("history", hs); report_fail(ci, o); failed = true; };
        // run a history on a fresh world; returns the state key; checks invariants after every operation and at quiescence
        static char keybuf[1024]; static int enbuf[NOPS]; static int nen;
        auto run = [&](const std::vector<int> &h) -> bool {
            size_t bal0 = allocated_bytes(); bool ok = true;
            { World w; w.ts = ts; w.mf.ts = &w.ts; w.mf.no_release_fn = rt.no_release; std::vector<uint32_t>().swap(w.mf.log_get);
              w.face = w.mf.make(rt.opts); w.gets_at_load = w.mf.n_get;
              if (!w.face) { fail(h, "seed font does not load"); return false; }
              for (int o : h) { { CallGuard cg(30); apply(w, o); } ++trans;
                  if (w.mf.bad_release) { fail(h, std::string("release_table called with a pointer that is not outstanding, after ") + opname(o)); ok = false; break; }
                  if ((rt.opts & 6) == 6 && w.face && w.mf.n_get != w.gets_at_load) { fail(h, std::string("get_table called after gr_make_face with preloadAll, during ") + opname(o)); ok = false; break; } }
              if (ok) { { std::string k = w.key(); snprintf(keybuf, sizeof keybuf, "%s", k.c_str()); } nen = 0; for (int o = 0; o < NOPS; ++o) if (enabled(w, o)) enbuf[nen++] = o; }
              close_world(w);
              if (ok && !rt.no_release && !w.mf.outstanding.empty()) { fail(h, "tables still borrowed after everything was destroyed: " + std::to_string(w.mf.outstanding.size())); ok = false; }
              w.mf.drop_outstanding(); std::vector<uint32_t>().swap(w.mf.log_get); }
            size_t bal1 = allocated_bytes();
            if (ok && bal1 != bal0) { fail(h, "allocation imbalance after all objects were destroyed: " + std::to_string((long long)(bal1 - bal0))); ok = false; }
            return ok; };
        while (!q.empty() && !failed) {
            if (deadline_hit(ctl)) break;
            Node n = q.front(); q.pop_front();
            if (!run(n.hist)) break;
            std::string key = keybuf; std::vector<int> en(enbuf, enbuf + nen);
            if (!seen.insert(key).second) continue;
            ++states;
            if (int(n.hist.size()) >= depth) continue;
            for (int o : en) { Node m; m.hist = n.hist; m.hist.push_back(o); q.push_back(m); }
        }
        ctl.counters[0] = ctl.counters[0] + states; ctl.counters[1] = ctl.counters[1] + trans; ctl.cls(hash_str(rt.font) + rt.opts * 2 + rt.no_release);
    };
}
static void extra_bfs(const Runner &r, JObj &o) { o.kv("states", (unsigned long long)r.counters[0]).kv("transitions", (unsigned long long)r.counters[1]).kv("validated", (unsigned long long)r.counters[1]); }

// ---- environment deviations ----
struct Dev { std::string font; unsigned opts; uint32_t tag; int kind; bool no_release; };
static std::vector<Dev> g_dev;
static void setup_dev(Runner &r, const Tier &t) {
    g_dev.clear(); std::vector<std::string> fonts = { gen_dir() + "/s_full.ttf", gen_dir() + "/s_full_z.ttf", font_path("small.ttf") }; if (t.thorough) { fonts.push_back(font_path("Padauk.ttf")); fonts.push_back(font_path("Awami_compressed_test.ttf")); }
    for (auto &f : fonts) { TableSet ts; ts.from_file(f); for (auto &kv : ts.t) for (int kind = 1; kind <= 3; ++kind) for (unsigned o = 0; o < 8; ++o) for (int nr = 0; nr < 2; ++nr) g_dev.push_back({ f, o, kv.first, kind, nr == 1 }); }
    r.ncases = g_dev.size(); r.case_alarm_s = 60;
    r.describe = [](uint64_t i) { const Dev &d = g_dev[i]; JObj o; o.kv("font", d.font).kv("face_options", d.opts).kv("table", tagstr(d.tag)).kv("answer", d.kind == 1 ? "NULL" : d.kind == 2 ? "length 0" : "length 3").kv("release_fn", !d.no_release); return o; };
    r.body = [](uint64_t i, ShardCtl &ctl) {
        const Dev &d = g_dev[i]; size_t bal0 = allocated_bytes(); std::string why;
        { TableSet ts; ts.from_file(d.font); size_t balts = allocated_bytes(); (void)balts;
          { MemFace mf; mf.ts = &ts; mf.dev_tag = d.tag; mf.dev_kind = d.kind; mf.no_release_fn = d.no_release; std::vector<uint32_t>().swap(mf.log_get);
            gr_face *f = mf.make(d.opts);
            if (!f) { ctl.counters[1] = ctl.counters[1] + 1; if (!d.no_release && !mf.outstanding.empty()) why = "tables still borrowed when gr_make_face returned NULL: " + tagstr(mf.outstanding.begin()->second); }
            else { std::string fd = dump_face(f); gr_segment *s = gr_make_seg(nullptr, f, 0, nullptr, gr_utf8, "ab", 2, 0); std::string sd = dump_segment(s); if (s) gr_seg_destroy(s); gr_face_destroy(f);
                if (!d.no_release && !mf.outstanding.empty()) why = "tables still borrowed after gr_face_destroy"; ctl.cls(hash_str(fd)); }
            if (mf.bad_release) why = "release_table called with a pointer that is not outstanding";
            mf.drop_outstanding(); std::vector<uint32_t>().swap(mf.log_get); } }
        size_t bal1 = allocated_bytes(); if (why.empty() && bal1 != bal0) why = "allocation imbalance " + std::to_string((long long)(bal1 - bal0));
        ctl.counters[0] = ctl.counters[0] + 1;
        if (!why.empty()) { JObj o; o.kv("font", d.font).kv("face_options", d.opts).kv("table", tagstr(d.tag)).kv("answer_kind", d.kind).kv("release_fn", !d.no_release).kv("kind", "env_deviation").kv("why", why); report_fail(i, o); }
    };
}

// ---- fonts whose tables are all plausible but in which ONE glyph is unreadable: preloading face creation fails late (after the glyph loader has borrowed its tables),
// lazily loading faces load and meet the bad glyph while shaping
struct RJ { std::string font; unsigned opts; bool no_release; }; static std::vector<RJ> g_rj;
static void setup_reject(Runner &r, const Tier &) {
    g_rj.clear(); for (const char *f : { "s_full_badglyph", "s_full_badlast" }) for (unsigned o = 0; o < 8; ++o) for (int nr = 0; nr < 2; ++nr) g_rj.push_back({ gen_dir() + "/" + f + ".ttf", o, nr == 1 });
    r.ncases = g_rj.size(); r.case_alarm_s = 120;
    r.describe = [](uint64_t i) { JObj o; o.kv("font", g_rj[i].font).kv("face_options", g_rj[i].opts).kv("release_fn", !g_rj[i].no_release).kv("what", "gr_make_face_with_ops (may fail), shape 4 texts that reach the unreadable glyph, queries, destroy"); return o; };
    r.body = [](uint64_t ci, ShardCtl &ctl) { const RJ &c = g_rj[ci]; TableSet ts; if (!ts.from_file(c.font)) return; size_t bal0 = allocated_bytes(); const char *why = nullptr;
        { MemFace mf; mf.ts = &ts; mf.no_release_fn = c.no_release; std::vector<uint32_t>().swap(mf.log_get); gr_face *f = mf.make(c.opts); ctl.counters[0] = ctl.counters[0] + 1; unsigned long gets = mf.n_get;
          if (f) { ctl.counters[1] = ctl.counters[1] + 1; for (const char *t : { "e", "ae f", "fe", "abcdef" }) for (int d = 0; d < 2; ++d) { gr_segment *sg = gr_make_seg(nullptr, f, 0, nullptr, gr_utf8, t, strlen(t), d); if (sg) gr_seg_destroy(sg); }
              if ((c.opts & 6) == 6 && mf.n_get != gets) why = "get_table called after gr_make_face with preloadAll";
              gr_face_destroy(f); }
          if (!why && mf.bad_release) why = "release_table called with a pointer that is not outstanding";
          if (!why && !c.no_release && !mf.outstanding.empty()) why = f ? "tables still borrowed after gr_face_destroy" : "tables still borrowed after a failed gr_make_face";
          mf.drop_outstanding(); std::vector<uint32_t>().swap(mf.log_get); }
        size_t bal1 = allocated_bytes(); if (!why && bal1 != bal0) why = "allocation imbalance after everything was destroyed";
        if (why) { JObj o; o.kv("font", c.font).kv("face_options", c.opts).kv("release_fn", !c.no_release).kv("kind", "borrow_discipline").kv("why", why); report_fail(ci, o); }
        ctl.cls(hash_str(c.font) + c.opts * 2 + c.no_release); };
}

// ---- the built-in file face (gr_make_file_face): the table reader is the library's own, so the observable contract is resource balance:
// after gr_face_destroy (or a failed creation) no allocation and no file descriptor is left, whatever was done with the face in between
static int open_fds() { int n = 0; if (DIR *d = opendir("/proc/self/fd")) { while (readdir(d)) ++n; closedir(d); } return n; }
struct FF { std::string file; unsigned opts; int variant; }; static std::vector<FF> g_ff; static std::string g_ffdir;
static void setup_fileface(Runner &r, const Tier &t) {
    g_ff.clear(); std::vector<std::string> fonts = { gen_dir() + "/s_full.ttf", gen_dir() + "/s_full_z.ttf", gen_dir() + "/s_full_badglyph.ttf", font_path("small.ttf"), font_path("Padauk.ttf") }; if (t.thorough) { fonts.push_back(font_path("Awami_compressed_test.ttf")); fonts.push_back(font_path("charis_r_gr.ttf")); }
    // variants: 0 the file as it is; 1..4 the file cut to 3/4, 1/2, 12 bytes, 0 bytes; 5 a path that does not exist
    for (auto &f : fonts) for (unsigned o = 0; o < 8; ++o) for (int v = 0; v <= 5; ++v) g_ff.push_back({ f, o, v });
    g_ffdir = (getenv("VERIF_WORK") ? std::string(getenv("VERIF_WORK")) : std::string("/verif/build/work")) + "/c16_files"; mkdir(g_ffdir.c_str(), 0755);
    r.ncases = g_ff.size(); r.case_alarm_s = 120;
    r.describe = [](uint64_t i) { const FF &c = g_ff[i]; static const char *vn[6] = { "whole file", "cut to 3/4", "cut to 1/2", "cut to 12 bytes", "empty file", "missing file" }; JObj o; o.kv("api", "gr_make_file_face").kv("font", c.file).kv("face_options", c.opts).kv("file", vn[c.variant]).kv("what", "create, shape 4 texts, all label / feature queries, destroy; allocation and descriptor balance"); return o; };
    r.body = [](uint64_t ci, ShardCtl &ctl) { const FF &c = g_ff[ci]; static char path[512];
        if (c.variant == 0) snprintf(path, sizeof path, "%s", c.file.c_str()); else if (c.variant == 5) snprintf(path, sizeof path, "%s/does-not-exist-%llu.ttf", g_ffdir.c_str(), (unsigned long long)ci);
        else { snprintf(path, sizeof path, "%s/cut-%llu.ttf", g_ffdir.c_str(), (unsigned long long)ci); FILE *in = fopen(c.file.c_str(), "rb"); if (!in) return; fseek(in, 0, SEEK_END); long n = ftell(in); fseek(in, 0, SEEK_SET); long keep = c.variant == 1 ? n * 3 / 4 : c.variant == 2 ? n / 2 : c.variant == 3 ? 12 : 0;
            static char buf[1 << 16]; FILE *out = fopen(path, "wb"); if (!out) { fclose(in); return; } long left = keep; while (left > 0) { size_t k = fread(buf, 1, size_t(left < long(sizeof buf) ? left : long(sizeof buf)), in); if (!k) break; fwrite(buf, 1, k, out); left -= long(k); } fclose(in); fclose(out); }
        int fd0 = open_fds(); size_t bal0 = allocated_bytes(); const char *why = nullptr; bool loaded = false;
        { gr_face *f = gr_make_file_face(path, c.opts); ctl.counters[0] = ctl.counters[0] + 1;
          if (f) { loaded = true; ctl.counters[1] = ctl.counters[1] + 1; gr_font *font = gr_make_font(11.f, f);
              for (const char *t : { "ab c", "a\xCC\x81", "fe", "" }) for (int d = 0; d < 2; ++d) { gr_segment *sg = gr_make_seg(d ? font : nullptr, f, 0, nullptr, gr_utf8, t, strlen(t), d); if (sg) gr_seg_destroy(sg); }
              for (unsigned k = 0; k < gr_face_n_fref(f) && k < 4; ++k) { uint16_t l = 0x409; uint32_t n = 0; void *lab = gr_fref_label(gr_face_fref(f, uint16_t(k)), &l, gr_utf8, &n); if (lab) gr_label_destroy(lab); }
              gr_feature_val *fv = gr_face_featureval_for_lang(f, 0); gr_featureval_destroy(fv); if (font) gr_font_destroy(font); gr_face_destroy(f); } }
        size_t bal1 = allocated_bytes(); int fd1 = open_fds();
        if (bal1 != bal0) why = loaded ? "memory still allocated after gr_face_destroy of a file face" : "memory still allocated after a failed gr_make_file_face";
        else if (fd1 != fd0) why = "file descriptor left open";
        if (c.variant != 0 && c.variant != 5) unlink(path);
        if (why) { JObj o; o.kv("api", "gr_make_file_face").kv("font", c.file).kv("face_options", c.opts).kv("file_variant", c.variant).kv("kind", "resource_balance").kv("why", why).kv("bytes", (long long)(bal1 - bal0)).kv("descriptors", fd1 - fd0); report_fail(ci, o); }
        ctl.cls(hash_str(c.file) + c.opts * 8 + c.variant + (loaded ? 1000 : 0)); };
}
int main(int argc, char **argv) {
    std::vector<Sub> subs;
    { Sub s; s.name = "history_bfs"; s.setup = setup_bfs; s.budget_quick = 140; s.budget_thorough = 1100; s.counter_names = { "states", "transitions" }; s.extra = extra_bfs; subs.push_back(s); }
    { Sub s; s.name = "env_deviation"; s.setup = setup_dev; s.budget_quick = 60; s.budget_thorough = 300; s.counter_names = { "loads", "rejected" }; subs.push_back(s); }
    { Sub s; s.name = "rejecting_fonts"; s.setup = setup_reject; s.budget_quick = 60; s.budget_thorough = 120; s.counter_names = { "face_creations", "loaded" }; subs.push_back(s); }
    { Sub s; s.name = "file_face"; s.setup = setup_fileface; s.budget_quick = 60; s.budget_thorough = 120; s.counter_names = { "face_creations", "loaded" }; subs.push_back(s); }
    return check_main(argc, argv, "C16", subs);
}
