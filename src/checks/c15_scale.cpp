// C15: positions are design-unit results scaled linearly by the font size.
// Every (font, text, dir) x ppm: structure identical to the font=NULL run and every position == design value * ppm/upem.
#include "common/corpus.hpp"
#include "common/segcheck.hpp"
using namespace vf;

static Corpus g_c; static FaceCache *g_fc; static std::vector<std::string> g_syn; static std::vector<std::vector<std::string>> g_syntexts;
struct Case { int kind; int font; int item; int dir; };   // kind 0 shipped corpus, 1 synthesised
static std::vector<Case> g_cases;

static std::string u8(std::initializer_list<uint32_t> l) { std::vector<uint8_t> b; for (uint32_t c : l) ref::enc8(c, b); return std::string(b.begin(), b.end()); }
static void setup(Runner &r, const Tier &t) {
    g_c.build({}, t.thorough ? 0 : 60, { 0, 1, 3 }); g_cases.clear();
    for (size_t i = 0; i < g_c.cases.size(); ++i) g_cases.push_back({ 0, g_c.cases[i].font, g_c.cases[i].item, g_c.cases[i].dir });
    g_syn = { gen_dir() + "/s_full.ttf", gen_dir() + "/s_full_rtl.ttf", gen_dir() + "/s_full_v3.ttf", gen_dir() + "/s_min.ttf" }; g_syntexts.clear();
    static const uint32_t alpha[8] = { 0x61, 0x62, 0x63, 0x64, 0x65, 0x20, 0x301, 0x300 };
    for (size_t f = 0; f < g_syn.size(); ++f) { std::vector<std::string> tx; int maxlen = t.thorough ? 4 : 3;
        for (int L = 0; L <= maxlen; ++L) { int n = 1; for (int k = 0; k < L; ++k) n *= 8; for (int v = 0; v < n; ++v) { std::vector<uint8_t> b; int x = v; for (int k = 0; k < L; ++k) { ref::enc8(alpha[x % 8], b); x /= 8; } tx.push_back(std::string(b.begin(), b.end())); } }
        g_syntexts.push_back(tx); for (int it = 0; it < int(tx.size()); ++it) for (int d : { 0, 1, 3 }) g_cases.push_back({ 1, int(f), it, d }); }
    r.ncases = g_cases.size(); r.case_alarm_s = 120; r.max_mask = 1u << 2;
    r.shard_init = [](int) { g_fc = new FaceCache; };
    r.describe = [](uint64_t i) { const Case &c = g_cases[i]; const std::string &font = c.kind ? g_syn[c.font] : g_c.fonts[c.font]; const std::string &txt = c.kind ? g_syntexts[c.font][c.item] : g_c.items[c.font][c.item];
        JObj o; o.kv("font", font).kv("text_utf8_hex", hex(txt.data(), txt.size())).kv("dir", c.dir).kv("ppm", "0.5,1,7.3,12,48.5,upem,4096"); return o; };
    r.body = [](uint64_t i, ShardCtl &ctl) {
        const Case &c = g_cases[i]; const std::string &fontname = c.kind ? g_syn[c.font] : g_c.fonts[c.font]; const std::string &txt = c.kind ? g_syntexts[c.font][c.item] : g_c.items[c.font][c.item];
        gr_face *face = g_fc->get(fontname, gr_face_preloadAll); if (!face) return;
        const gr_faceinfo *fi = gr_face_info(face, 0); float upem = fi ? fi->upem : 1000.f; if (upem <= 0) return;
        size_t n = utf8_count(txt);
        gr_segment *ref = gr_make_seg(nullptr, face, 0, nullptr, gr_utf8, txt.c_str(), n, c.dir);
        SegDumpOpts so; so.positions = false; std::string dref = dump_segment(ref, so);
        std::vector<const gr_slot*> rs; if (ref) rs = seg_slots(ref);
        const float ppms[7] = { 0.5f, 1.f, 7.3f, 12.f, 48.5f, upem, 4096.f };
        for (float ppm : ppms) {
            gr_font *font = gr_make_font(ppm, face); if (!font) continue;
            gr_segment *s = gr_make_seg(font, face, 0, nullptr, gr_utf8, txt.c_str(), n, c.dir);
            std::string d = dump_segment(s, so); const char *why = nullptr; double worst = 0, got = 0, want = 0;
            if (d != dref) why = "glyphs/attachments/associations depend on the gr_font";
            else if (s) { std::vector<const gr_slot*> ss = seg_slots(s); const double k = double(ppm) / upem;
                auto cmp = [&](double v, double du, const char *what) { double e = std::fabs(v - du * k), tol = 1e-4 * std::max(1.0, std::fabs(v)); double rel = e / std::max(1.0, std::fabs(v)); if (rel > worst) worst = rel; if (e > tol && !why) { why = what; got = v; want = du * k; } };
                cmp(gr_seg_advance_X(s), gr_seg_advance_X(ref), "segment advance X not scaled"); cmp(gr_seg_advance_Y(s), gr_seg_advance_Y(ref), "segment advance Y not scaled");
                for (size_t q = 0; q < ss.size() && q < rs.size(); ++q) {
                    cmp(gr_slot_origin_X(ss[q]), gr_slot_origin_X(rs[q]), "slot origin X not scaled"); cmp(gr_slot_origin_Y(ss[q]), gr_slot_origin_Y(rs[q]), "slot origin Y not scaled");
                    cmp(gr_slot_advance_X(ss[q], face, font), gr_slot_advance_X(rs[q], nullptr, nullptr), "slot advance X not scaled"); cmp(gr_slot_advance_Y(ss[q], face, font), gr_slot_advance_Y(rs[q], nullptr, nullptr), "slot advance Y not scaled"); } }
            uint64_t w = uint64_t(worst * 1e9); if (w > ctl.counters[2]) ctl.counters[2] = w;
            ctl.counters[0] = ctl.counters[0] + 1;
            if (why) { JObj o; o.kv("font", fontname).kv("text_utf8_hex", hex(txt.data(), txt.size())).kv("dir", c.dir).kv("ppm", double(ppm)).kv("kind", "scaling").kv("why", why).kv("got", got).kv("want", want); report_fail(i, o); }
            if (s) gr_seg_destroy(s); gr_font_destroy(font);
            if (why) break;
        }
        ctl.cls(hash_str(dref)); if (ref) { bool att = dref.find(" p0") != std::string::npos || dref.find(" p1") != std::string::npos; if (att) ctl.counters[1] = ctl.counters[1] + 1; gr_seg_destroy(ref); }
    };
}
int main(int argc, char **argv) {
    std::vector<Sub> subs;
    { Sub s; s.name = "ppm_product"; s.setup = setup; s.budget_quick = 120; s.budget_thorough = 900; s.counter_names = { "comparisons", "cases_with_attachments", "max_relative_error_e9" }; subs.push_back(s); }
    return check_main(argc, argv, "C15", subs);
}
