// C15: positions are design-unit results scaled linearly by the font size.
// Every (font, text, dir) x ppm: structure identical to the font=NULL run and every position == design value * ppm/upem.
#include "common/corpus.hpp"
#include "common/segcheck.hpp"
#include <map>
using namespace vf;

static Corpus g_c; static FaceCache *g_fc; static std::vector<std::string> g_syn; static std::vector<std::vector<std::string>> g_syntexts;
struct Case { int kind; int font; int item; int dir; };   // kind 0 shipped corpus, 1 synthesised
static std::vector<Case> g_cases;

static std::string u8(std::initializer_list<uint32_t> l) { std::vector<uint8_t> b; for (uint32_t c : l) ref::enc8(c, b); return std::string(b.begin(), b.end()); }
static void setup(Runner &r, const Tier &t) {
    g_c.build({}, t.thorough ? 0 : 60, { 0, 1, 3 }); g_cases.clear();
    for (size_t i = 0; i < g_c.cases.size(); ++i) g_cases.push_back({ 0, g_c.cases[i].font, g_c.cases[i].item, g_c.cases[i].dir });
    g_syn = { gen_dir() + "/s_full.ttf", gen_dir() + "/s_full_rtl.ttf", gen_dir() + "/s_full_v3.ttf", gen_dir() + "/s_min.ttf", gen_dir() + "/s_full_pb.ttf", gen_dir() + "/s_full_bidi.ttf", gen_dir() + "/s_full_rtl_bidi.ttf", gen_dir() + "/s_full_jatt.ttf", gen_dir() + "/s_full_rtl_jatt.ttf", gen_dir() + "/s_full_badgid.ttf" }; g_syntexts.clear();
    static const uint32_t alpha[8] = { 0x61, 0x62, 0x63, 0x64, 0x65, 0x20, 0x301, 0x300 };
    for (size_t f = 0; f < g_syn.size(); ++f) { std::vector<std::string> tx; int maxlen = t.thorough ? 4 : 3;
        for (int L = 0; L <= maxlen; ++L) { int n = 1; for (int k = 0; k < L; ++k) n *= 8; for (int v = 0; v < n; ++v) { std::vector<uint8_t> b; int x = v; for (int k = 0; k < L; ++k) { ref::enc8(alpha[x % 8], b); x /= 8; } tx.push_back(std::string(b.begin(), b.end())); } }
        g_syntexts.push_back(tx); for (int it = 0; it < int(tx.size()); ++it) for (int d : { 0, 1, 3 }) g_cases.push_back({ 1, int(f), it, d }); }
    r.ncases = g_cases.size(); r.case_alarm_s = 120; r.max_mask = 1u << 2;
    r.shard_init = [](int) { g_fc = new FaceCache; };
    r.describe = [](uint64_t i) { const Case &c = g_cases[i]; const std::string &font = c.kind ? g_syn[c.font] : g_c.fonts[c.font]; const std::string &txt = c.kind ? g_syntexts[c.font][c.item] : g_c.items[c.font][c.item];
        JObj o; o.kv("font", font).kv("text_utf8_hex", hex(txt.data(), txt.size())).kv("dir", c.dir).kv("ppm", "0.5,1,7.3,12,48.5,upem,4096"); return o; };
    r.body = [](uint64_t i, ShardCtl &ctl) {
        const Case &c = g_cases[i]; const std::string &fontname = c.kind ? g_syn[c.font] : g_c.fonts[c.font]; const std::string &txt = c.kind ? g_syntexts[c.font][c.item] : g_c.items[c.font][c.item];
        gr_face *face = g_fc->get(fontname, gr_face_preloadAll); if (!face) return;
        const gr_faceinfo *fi = gr_face_info(face, 0); float upem = fi ? fi->upem : 1000.f; if (upem <= 0) return;
        size_t n = utf8_count(txt);
        gr_segment *ref = gr_make_seg(nullptr, face, 0, nullptr, gr_utf8, txt.c_str(), n, c.dir);
        SegDumpOpts so; so.positions = false; std::string dref = dump_segment(ref, so);
        std::vector<const gr_slot*> rs; if (ref) rs = seg_slots(ref);
        const float ppms[7] = { 0.5f, 1.f, 7.3f, 12.f, 48.5f, upem, 4096.f };
        for (float ppm : ppms) {
            gr_font *font = gr_make_font(ppm, face); if (!font) continue;
            gr_segment *s = gr_make_seg(font, face, 0, nullptr, gr_utf8, txt.c_str(), n, c.dir);
            std::string d = dump_segment(s, so); const char *why = nullptr; double worst = 0, got = 0, want = 0;
            if (d != dref) why = "glyphs/attachments/associations depend on the gr_font";
            else if (s) { std::vector<const gr_slot*> ss = seg_slots(s); const double k = double(ppm) / upem;
                auto cmp = [&](double v, double du, const char *what) { double e = std::fabs(v - du * k), tol = 1e-4 * std::max(1.0, std::fabs(v)); double rel = e / std::max(1.0, std::fabs(v)); if (rel > worst) worst = rel; if (e > tol && !why) { why = what; got = v; want = du * k; } };
                cmp(gr_seg_advance_X(s), gr_seg_advance_X(ref), "segment advance X not scaled"); cmp(gr_seg_advance_Y(s), gr_seg_advance_Y(ref), "segment advance Y not scaled");
                for (size_t q = 0; q < ss.size() && q < rs.size(); ++q) {
                    cmp(gr_slot_origin_X(ss[q]), gr_slot_origin_X(rs[q]), "slot origin X not scaled"); cmp(gr_slot_origin_Y(ss[q]), gr_slot_origin_Y(rs[q]), "slot origin Y not scaled");
                    cmp(gr_slot_advance_X(ss[q], face, font), gr_slot_advance_X(rs[q], nullptr, nullptr), "slot advance X not scaled"); cmp(gr_slot_advance_X(ss[q], nullptr, font), gr_slot_advance_X(rs[q], nullptr, nullptr), "slot advance X (face NULL, unhinted font) not scaled"); cmp(gr_slot_advance_Y(ss[q], face, font), gr_slot_advance_Y(rs[q], nullptr, nullptr), "slot advance Y not scaled"); } }
            uint64_t w = uint64_t(worst * 1e9); if (w > ctl.counters[2]) ctl.counters[2] = w;
            ctl.counters[0] = ctl.counters[0] + 1;
            if (why) { JObj o; o.kv("font", fontname).kv("text_utf8_hex", hex(txt.data(), txt.size())).kv("dir", c.dir).kv("ppm", double(ppm)).kv("kind", "scaling").kv("why", why).kv("got", got).kv("want", want); report_fail(i, o); }
            if (s) gr_seg_destroy(s); gr_font_destroy(font);
            if (why) break;
        }
        ctl.cls(hash_str(dref)); if (ref) { bool att = dref.find(" p0") != std::string::npos || dref.find(" p1") != std::string::npos; if (att) ctl.counters[1] = ctl.counters[1] + 1; gr_seg_destroy(ref); }
    };
}

// ---- justified lines: gr_seg_justify(width in pixels, font) must give the design-unit result of gr_seg_justify(width in design units, NULL) scaled by ppm/upem
// (whole segment, and each of the two lines after one line break at a cluster boundary); the justifier hands out whole design units, so one design unit per slot is tolerated
struct JCase { int kind, font, item; }; static std::vector<JCase> g_jc; static Corpus g_jcorp; static std::vector<std::string> g_jsyn; static std::vector<std::vector<std::string>> g_jtx;
static bool break_ok(const std::vector<const gr_slot*> &sl, size_t k) { if (k == 0 || k >= sl.size()) return false; std::map<const gr_slot*, size_t> ix; for (size_t q = 0; q < sl.size(); ++q) ix[sl[q]] = q;
    for (size_t q = 0; q < sl.size(); ++q) { const gr_slot *r = sl[q]; int guard = 0; while (gr_slot_attached_to(r) && ++guard < 64) r = gr_slot_attached_to(r); if ((ix[r] < k) != (q < k)) return false; } return gr_slot_attached_to(sl[k]) == nullptr; }
static void setup_just(Runner &r, const Tier &t) {
    g_jc.clear(); g_jcorp.build({ "Padauk.ttf", "charis_r_gr.ttf", "Scheherazadegr.ttf", "general.ttf" }, t.thorough ? 200 : 25, { 0 });
    for (size_t i = 0; i < g_jcorp.cases.size(); ++i) g_jc.push_back({ 0, g_jcorp.cases[i].font, g_jcorp.cases[i].item });
    g_jsyn = { gen_dir() + "/s_full.ttf", gen_dir() + "/s_full_rtl.ttf", gen_dir() + "/s_full_nojust.ttf", gen_dir() + "/s_full_badgid.ttf" };      /* no justification levels: every glyph is stretched; badgid: d maps to a glyph id beyond the font */ g_jtx.clear(); static const uint32_t alpha[5] = { 0x61, 0x62, 0x20, 0x301, 0x64 };
    for (size_t f = 0; f < g_jsyn.size(); ++f) { std::vector<std::string> tx; int L = t.thorough ? 5 : 4; int n = 1; for (int k = 0; k < L; ++k) n *= 5; for (int v = 0; v < n; ++v) { std::vector<uint8_t> b; int x = v, sp = 0; for (int k = 0; k < L; ++k) { if (x % 5 == 2) ++sp; ref::enc8(alpha[x % 5], b); x /= 5; } if (sp) tx.push_back(std::string(b.begin(), b.end())); }
        g_jtx.push_back(tx); for (int it = 0; it < int(tx.size()); ++it) g_jc.push_back({ 1, int(f), it }); }
    r.ncases = g_jc.size(); r.case_alarm_s = 120; r.shard_init = [](int) { g_fc = new FaceCache; };
    r.describe = [](uint64_t i) { const JCase &c = g_jc[i]; const std::string &font = c.kind ? g_jsyn[c.font] : g_jcorp.fonts[c.font]; const std::string &txt = c.kind ? g_jtx[c.font][c.item] : g_jcorp.items[c.font][c.item];
        JObj o; o.kv("font", font).kv("text_utf8_hex", hex(txt.data(), txt.size())).kv("ppm", "9,12,96,4096").kv("width_factor", "1.3,0.9").kv("lines", "whole segment; both lines after a break before each of the first 4 cluster starts"); return o; };
    r.body = [](uint64_t i, ShardCtl &ctl) {
        const JCase &c = g_jc[i]; const std::string &fontname = c.kind ? g_jsyn[c.font] : g_jcorp.fonts[c.font]; const std::string &txt = c.kind ? g_jtx[c.font][c.item] : g_jcorp.items[c.font][c.item];
        gr_face *face = g_fc->get(fontname, gr_face_preloadAll); if (!face) return; const gr_faceinfo *fi = gr_face_info(face, 0); float upem = fi ? fi->upem : 1000.f; if (upem <= 0) return;
        size_t n = utf8_count(txt); int dir = (fontname.find("_rtl") != std::string::npos || fontname.find("Scheherazade") != std::string::npos) ? 1 : 0;     // paragraph direction = font direction
        for (float ppm : { 9.f, 12.f, 96.f, 4096.f }) for (float factor : { 1.3f, 0.9f }) for (int brk = 0; brk <= 4; ++brk) {
            gr_font *font = gr_make_font(ppm, face); if (!font) return; const double k = double(ppm) / upem;
            gr_segment *A = gr_make_seg(nullptr, face, 0, nullptr, gr_utf8, txt.c_str(), n, dir), *B = gr_make_seg(font, face, 0, nullptr, gr_utf8, txt.c_str(), n, dir);
            if (!A || !B) { if (A) gr_seg_destroy(A); if (B) gr_seg_destroy(B); gr_font_destroy(font); return; }
            std::vector<const gr_slot*> sa = seg_slots(A), sb = seg_slots(B); bool skip = sa.size() != sb.size() || sa.size() < 2;
            size_t bk = 0; if (!skip && brk) { size_t seen = 0; for (size_t q = 1; q < sa.size(); ++q) if (break_ok(sa, q) && ++seen == size_t(brk)) { bk = q; break; } if (!bk) skip = true; }
            const char *why = nullptr; char detail[200] = "";
            if (!skip) {
                double endA = gr_seg_advance_X(A); if (bk) { gr_slot_linebreak_before(const_cast<gr_slot*>(sa[bk])); gr_slot_linebreak_before(const_cast<gr_slot*>(sb[bk])); }
                struct Line { size_t b, e; }; std::vector<Line> lines; if (bk) { lines.push_back({ bk, sa.size() }); lines.push_back({ 0, bk }); } else lines.push_back({ 0, sa.size() });
                for (const Line &ln : lines) { if (why) break;
                    double x0 = gr_slot_origin_X(sa[ln.b]), x1 = ln.e < sa.size() ? gr_slot_origin_X(sa[ln.e]) : endA; double nat = std::fabs(x1 - x0); if (!(nat > 1)) continue; double W = double(factor) * nat;
                    float wa = gr_seg_justify(A, sa[ln.b], nullptr, W, gr_justCompleteLine, nullptr, nullptr), wb = gr_seg_justify(B, sb[ln.b], font, W * k, gr_justCompleteLine, nullptr, nullptr); ctl.counters[0] = ctl.counters[0] + 1;
                    double tol = (double(ln.e - ln.b) + 2.0) * k + 1e-4 * std::fabs(wb);
                    if (!(std::fabs(wa) < 1e30) || !(std::fabs(wb) < 1e30)) { why = "justified width not finite"; }
                    else if (std::fabs(wb - wa * k) > tol) { why = "justified width not the design-unit width scaled"; snprintf(detail, sizeof detail, "got %g want %g (design %g)", wb, wa * k, wa); }
                    for (size_t q = ln.b; q < ln.e && !why; ++q) { double ax = gr_slot_origin_X(sa[q]), bx = gr_slot_origin_X(sb[q]), ay = gr_slot_origin_Y(sa[q]), by = gr_slot_origin_Y(sb[q]); double t2 = tol + 1e-4 * std::fabs(bx);
                        if (std::fabs(bx - ax * k) > t2 || std::fabs(by - ay * k) > t2) { why = "justified slot origin not the design-unit origin scaled"; snprintf(detail, sizeof detail, "slot %zu of line [%zu,%zu): got (%g,%g) want (%g,%g)", q, ln.b, ln.e, bx, by, ax * k, ay * k); } }
                }
            }
            gr_seg_destroy(A); gr_seg_destroy(B); gr_font_destroy(font);
            if (why) { JObj o; o.kv("font", fontname).kv("text_utf8_hex", hex(txt.data(), txt.size())).kv("ppm", double(ppm)).kv("factor", double(factor)).kv("break_index", (unsigned long long)bk).kv("kind", "justify_scaling").kv("why", why).kv("detail", detail); report_fail(i, o); return; }
        }
        ctl.cls(hash_str(fontname) * 31 + n);
    };
}
int main(int argc, char **argv) {
    std::vector<Sub> subs;
    { Sub s; s.name = "ppm_product"; s.setup = setup; s.budget_quick = 120; s.budget_thorough = 900; s.counter_names = { "comparisons", "cases_with_attachments", "max_relative_error_e9" }; subs.push_back(s); }
    { Sub s; s.name = "justified_lines"; s.setup = setup_just; s.budget_quick = 100; s.budget_thorough = 600; s.counter_names = { "justify_pairs" }; subs.push_back(s); }
    return check_main(argc, argv, "C15", subs);
}
