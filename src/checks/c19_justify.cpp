// C19: line breaking and justification never corrupt the glyph stream.
// For every (font, text, dir, font/no font) and EVERY subset of cluster-boundary break positions, the segment is cut
// into lines and every line is justified with every (width, flags, pFirst/pLast) choice, one call after the other on
// the same segment; after EVERY call all lines must still be intact doubly-linked chains of the same slots.
#include "common/corpus.hpp"
#include "common/segcheck.hpp"
#include "inc/Face.h"
#include "inc/Silf.h"
using namespace vf;

struct JCase { int font; int text; int dir; int wf; };
static std::vector<JCase> g_cases; static std::vector<std::string> g_fonts; static std::vector<std::vector<std::string>> g_texts;
static FaceCache *g_fc; static bool g_thor;

static std::vector<std::string> pick_texts(const std::string &corpus, size_t want, size_t minc, size_t maxc) {
    std::vector<std::string> out; for (auto &it : corpus_items(corpus, 0, true)) { size_t n = utf8_count(it); if (n >= minc && n <= maxc && it.find(' ') != std::string::npos) { out.push_back(it); if (out.size() >= want) break; } }
    for (auto &it : corpus_items(corpus, 0, true)) { if (out.size() >= want) break; size_t n = utf8_count(it); if (n >= minc && n <= maxc) out.push_back(it); }
    return out;
}
static void setup(Runner &r, const Tier &t) {
    g_thor = t.thorough; g_cases.clear(); g_fonts.clear(); g_texts.clear();
    struct F { std::string font, corpus; }; std::vector<F> fs = { { "Padauk.ttf", "my_HeadwordSyllables.txt" }, { "Scheherazadegr.ttf", "udhr_arb.txt" }, { gen_dir() + "/s_full.ttf", "" } };
    { fs.push_back({ "charis_r_gr.ttf", "udhr_yor.txt" }); fs.push_back({ "Awami_test.ttf", "awami_tests.txt" }); fs.push_back({ gen_dir() + "/s_full_rtl.ttf", "" }); fs.push_back({ "Annapurnarc2.ttf", "udhr_nep.txt" }); fs.push_back({ gen_dir() + "/s_full_le.ttf", "" }); fs.push_back({ gen_dir() + "/s_full_le_badlb.ttf", "" });      /* line-end slots carry a glyph id the font does not have */ fs.push_back({ gen_dir() + "/s_full_step.ttf", "" }); fs.push_back({ gen_dir() + "/s_full_nojust.ttf", "" }); fs.push_back({ "PigLatinBenchmark_v3.ttf", "" });   /* no justification levels and more glyphs than characters (insertions) */ fs.push_back({ gen_dir() + "/s_full_rtl_le.ttf", "" }); }
    for (auto &f : fs) {
        g_fonts.push_back(f.font);
        if (f.font.find("PigLatin") != std::string::npos) g_texts.push_back({ "hello", "hello world", "pig latin" });
        else if (f.corpus.empty()) g_texts.push_back({ "ab c de", "a\xCC\x81 b c\xCC\x80\xCC\x81 d", "cc ab", "ab c\xCC\x81\xCC\x80" });
        else g_texts.push_back(pick_texts(f.corpus, t.thorough ? 6 : 3, 5, t.thorough ? 12 : 9));
        // a line that ends in marks (exercises reverseSlots' mark handling at a line end)
        if (f.font == "Awami_test.ttf") g_texts.back().push_back("\xd9\xbe\xd8\xb3\xd8\xaa\xd9\x8a\xd9\x94 | \xd8\xba\xd9\x84\xd9\x8a\xd9\x94");
        // slot-pool edges on the line-end fonts: every c grows by one slot (c > z c), so k = 9, 14, 15 leave exactly one free slot when the two temporary line-end slots are taken
        // (the second one then comes out of a freshly allocated block)
        if (f.font.find("_le") != std::string::npos) for (int k : { 9, 14, 15 }) g_texts.back().push_back(std::string(size_t(k), 'c'));
        // very short segments (pool sizes derived from the character count): the first one and two characters of the first text, and a lone space
        { const std::string &t0 = g_texts.back()[0]; size_t p1 = 1; while (p1 < t0.size() && (uint8_t(t0[p1]) & 0xC0) == 0x80) ++p1; size_t p2 = p1 < t0.size() ? p1 + 1 : p1; while (p2 < t0.size() && (uint8_t(t0[p2]) & 0xC0) == 0x80) ++p2;
          std::string one = t0.substr(0, p1), two = t0.substr(0, p2); g_texts.back().push_back(one); if (two != one) g_texts.back().push_back(two); g_texts.back().push_back(" "); }
        int fi = int(g_fonts.size()) - 1;
        for (int ti = 0; ti < int(g_texts[fi].size()); ++ti) for (int dir = 0; dir < 8; ++dir) for (int wf = 0; wf < 3; ++wf) { if (wf == 2 && f.font.find("s_full") == std::string::npos) continue; g_cases.push_back({ fi, ti, dir, wf }); }      /* wf 2: font with an advance callback (hinted), on the synthesised fonts */
    }
    r.ncases = g_cases.size(); r.case_alarm_s = unsigned(r.deadline_s) + 600;
    r.shard_init = [](int) { g_fc = new FaceCache; };
    r.describe = [](uint64_t i) { const JCase &c = g_cases[i]; JObj o; o.kv("api", "gr_slot_linebreak_before + gr_seg_justify").kv("font", g_fonts[c.font]).kv("text_utf8_hex", hex(g_texts[c.font][c.text].data(), g_texts[c.font][c.text].size()))
        .kv("dir", c.dir).kv("with_font", c.wf).kv("histories", "every subset of cluster-boundary breaks x every line x 6 widths x 4 flags x 8 sub-ranges, applied in sequence"); return o; };
    r.body = [](uint64_t ci, ShardCtl &ctl) {
        const JCase &c = g_cases[ci]; gr_face *face = g_fc->get(g_fonts[c.font], gr_face_preloadAll); if (!face) return;
        const gr_faceinfo *fi = gr_face_info(face, 0); bool justifies = fi && fi->justifies; bool line_ends = fi && fi->line_ends;
        static int hint_handle; gr_font *font = c.wf == 2 ? gr_make_font_with_advance_fn(24.0f, &hint_handle, [](const void *, gr_uint16 g) -> float { return float(5 + g % 7); }, face) : c.wf ? gr_make_font(24.0f, face) : nullptr;
        const std::string &txt = g_texts[c.font][c.text]; size_t nch = utf8_count(txt);
        // probe segment: slot count and cluster boundaries
        gr_segment *probe = gr_make_seg(font, face, 0, nullptr, gr_utf8, txt.c_str(), nch, c.dir); if (!probe) { if (font) gr_font_destroy(font); return; }
        std::vector<const gr_slot*> ps = seg_slots(probe); size_t n = ps.size();
        std::vector<int> bnd;   // positions p (1..n-1) such that no attachment crosses between p-1 and p
        { std::map<const gr_slot*, int> pos; for (size_t i = 0; i < n; ++i) pos[ps[i]] = int(i);
          for (size_t p = 1; p < n; ++p) { bool cross = false; for (size_t i = 0; i < n && !cross; ++i) { const gr_slot *b = ps[i]; while (gr_slot_attached_to(b)) b = gr_slot_attached_to(b); int bp = pos[b]; if ((i < p) != (size_t(bp) < p)) cross = true; } if (!cross || getenv("C19_ANYBREAK")) bnd.push_back(int(p)); } }
        gr_seg_destroy(probe);
        if (bnd.size() > (g_thor ? 11u : 9u)) bnd.resize(g_thor ? 11 : 9);
        if (txt.size() >= 9 && txt.find_first_not_of('c') == std::string::npos && bnd.size() > 2) bnd.resize(2);      // pool-edge texts: the unbroken segment and the first two break positions suffice
        uint64_t calls = 0; bool failed = false;
        for (uint32_t mask = 0; mask < (1u << bnd.size()) && !failed; ++mask) {
            if (deadline_hit(ctl)) break;
            size_t bal0 = allocated_bytes(); bool made = true;
            {   // everything the harness allocates for this history lives inside this block
            gr_segment *seg = gr_make_seg(font, face, 0, nullptr, gr_utf8, txt.c_str(), nch, c.dir); if (!seg) { made = false; }
            else {
            std::vector<const gr_slot*> sl = seg_slots(seg); std::vector<unsigned> gids; for (auto s : sl) gids.push_back(gr_slot_gid(s));
            float W = gr_seg_advance_X(seg);
            std::vector<std::vector<const gr_slot*>> lines(1);
            for (size_t i = 0; i < sl.size(); ++i) { bool brk = false; for (size_t k = 0; k < bnd.size(); ++k) if ((mask >> k & 1) && size_t(bnd[k]) == i) brk = true; if (brk) lines.push_back({}); lines.back().push_back(sl[i]); }
            for (size_t L = 1; L < lines.size(); ++L) gr_slot_linebreak_before(const_cast<gr_slot*>(lines[L][0]));
            auto intact = [&](std::string &why) {
                for (size_t L = 0; L < lines.size(); ++L) { const auto &V = lines[L]; const gr_slot *s = V[0];
                    if (gr_slot_prev_in_segment(s)) { why = "first slot of line " + std::to_string(L) + " has a prev link"; return false; }
                    for (size_t k = 0; k < V.size(); ++k) { if (s != V[k]) { why = "line " + std::to_string(L) + " no longer holds its slots in order (position " + std::to_string(k) + ")"; return false; }
                        const gr_slot *nx = gr_slot_next_in_segment(s); if (nx && gr_slot_prev_in_segment(nx) != s) { why = "prev is not the inverse of next in line " + std::to_string(L); return false; }
                        if (!std::isfinite(gr_slot_origin_X(s)) || !std::isfinite(gr_slot_origin_Y(s))) { why = "origin not finite"; return false; }
                        s = nx; }
                    if (s) { why = "line " + std::to_string(L) + " continues past its last slot"; return false; } }
                if (!justifies && !line_ends) for (size_t i = 0; i < sl.size(); ++i) if (gr_slot_gid(sl[i]) != gids[i]) { why = "glyph id changed although the font has no justification pass"; return false; }
                return true; };
            std::string why; int step = 0;
            if (!intact(why)) { JObj o; o.kv("api", "gr_slot_linebreak_before").kv("font", g_fonts[c.font]).kv("dir", c.dir).kv("with_font", c.wf).kv("mask", mask).kv("lines", (unsigned long long)lines.size()).kv("kind", "stream_corrupted").kv("why", why); report_fail(ci, o); failed = true; }
            const float widths[6] = { -1.f, 0.f, W / 4, W, 3 * W, 1e6f };
            for (size_t L = 0; L < lines.size() && !failed; ++L) for (int wi = 0; wi < 6 && !failed; ++wi) for (int fl = 0; fl < 4 && !failed; ++fl) for (int sr = 0; sr < 8 && !failed; ++sr) {
                const auto &V = lines[L]; const gr_slot *pf = nullptr, *pl = nullptr;
                if (sr == 1) { pf = V.front(); pl = V.back(); } else if (sr == 2) { if (V.size() < 3) continue; pf = V[1]; pl = V[V.size() - 2]; } else if (sr == 3) { pf = V.back(); pl = V.back(); } else if (sr == 4) { pf = V.front(); } else if (sr == 5) { pl = V.back(); } else if (sr == 6) { pf = V.front(); pl = V.front(); } else if (sr == 7) { if (V.size() < 2) continue; pf = V[1]; }
                float ret; { CallGuard cg(6); ret = gr_seg_justify(seg, V[0], font, widths[wi], gr_justFlags(fl), pf, pl); } ++calls; ++step;
                if (!std::isfinite(ret)) why = "returned width not finite";
                if (!why.empty() || !intact(why)) {
                    const graphite2::Silf *sf = static_cast<const graphite2::Face*>(face)->chooseSilf(0); int fontdir = sf ? (sf->dir() & 1) : 0;
                    JObj o; o.kv("api", "gr_seg_justify").kv("font", g_fonts[c.font]).kv("text_utf8_hex", hex(txt.data(), txt.size())).kv("dir", c.dir).kv("dir_rtl", c.dir & 1).kv("with_font", c.wf).kv("mask", mask)
                        .kv("lines", (unsigned long long)lines.size()).kv("line", (unsigned long long)L).kv("width_index", wi).kv("width_nonneg", wi != 0).kv("flags", fl).kv("subrange", sr).kv("calls_before", step - 1).kv("line_ends", line_ends).kv("kind", "stream_corrupted").kv("why", why)
                        .kv("font_rtl", fontdir).kv("paragraph_dir_differs_from_font_dir", (c.dir & 1) != fontdir).kv("multi_line", lines.size() > 1);
                    report_fail(ci, o); failed = true; }
            }
            // destroy must still release the whole segment: re-join nothing, just destroy; allocation balance decides
            gr_seg_destroy(seg);
            ctl.cls(uint64_t(lines.size()) * 131 + n);
            } }
            if (!made) break;
            size_t bal1 = allocated_bytes();
            if (!failed && bal1 != bal0) { JObj o; o.kv("api", "gr_seg_destroy").kv("font", g_fonts[c.font]).kv("dir", c.dir).kv("mask", mask).kv("kind", "leak_after_linebreak_justify").kv("leaked", (long long)(bal1 - bal0)); report_fail(ci, o); failed = true; }
            ctl.counters[1] = ctl.counters[1] + 1;
        }
        ctl.counters[0] = ctl.counters[0] + calls;
        if (font) gr_font_destroy(font);
    };
}
static void extra(const Runner &r, JObj &o) { o.kv("states", (unsigned long long)r.counters[1]).kv("transitions", (unsigned long long)r.counters[0]).kv("validated", (unsigned long long)r.counters[0]); }
int main(int argc, char **argv) {
    std::vector<Sub> subs;
    { Sub s; s.name = "histories"; s.setup = setup; s.budget_quick = 140; s.budget_thorough = 1100; s.counter_names = { "justify_calls", "break_histories" }; s.extra = extra; subs.push_back(s); }
    return check_main(argc, argv, "C19", subs);
}
