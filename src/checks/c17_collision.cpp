// C17: collision fixing respects limits and its "resolved" verdict is true; the interval set stays well formed.
//  zones      explicit-state enumeration of operation sequences on a real Zones object vs a unit-cell reference model
//  end_to_end every ShiftCollider::resolve performed while shaping (hooks GRAPHITE2_VERIF in Pass::resolveCollisions):
//             limit clause, verdict clause (octagon separating-axis oracle against the merged neighbours), Zones invariants
#include "common/corpus.hpp"
#include "common/segcheck.hpp"
#include "inc/Intervals.h"
#include "inc/Collider.h"
#include "inc/Segment.h"
#include "inc/Slot.h"
#include "inc/Face.h"
#include "inc/GlyphCache.h"
using namespace vf;
using graphite2::Zones; using graphite2::XY; using graphite2::SD;

// ------------------------------------------------------------------ Zones
static const float LO = 0, HI = 8, MARGIN = 1, MWT = 2;
struct ZOp { int kind; int a, b; int v; };      // kind 0 exclude, 1 exclude_with_margins(axis v), 2 weighted<XY> tuple v, 3 weighted<SD> tuple v
static std::vector<ZOp> g_zops; static int g_zdepth = 3;
struct Cell { bool free; float sm, smx, c; };
static const float WT[3][6] = { /* f, a0, m, xi, ai, c */ { 0, 0, 2, 3, 0, 0 }, { 1, 2, 0, 0, 0, 5 }, { 0.5f, -1, 1, 6, 2, 1 } };
static void zones_ops(bool thorough) {
    g_zops.clear(); std::vector<int> ends = thorough ? std::vector<int>{ -1, 0, 1, 3, 4, 7, 8, 9 } : std::vector<int>{ -1, 0, 2, 3, 5, 8, 9 };
    for (size_t i = 0; i < ends.size(); ++i) for (size_t j = i + 1; j < ends.size(); ++j) { int a = ends[i], b = ends[j];
        g_zops.push_back({ 0, a, b, 0 }); g_zops.push_back({ 1, a, b, 0 }); g_zops.push_back({ 1, a, b, 2 }); for (int v = 0; v < 3; ++v) g_zops.push_back({ 2, a, b, v }); g_zops.push_back({ 3, a, b, 2 }); }
    g_zops.push_back({ 0, 4, 4, 0 }); g_zops.push_back({ 0, 6, 2, 0 }); g_zops.push_back({ 2, 5, 5, 0 });      // degenerate / reversed intervals
}
template <graphite2::zones_t O> static void model_weighted(Cell *cells, float a, float b, const float *w, bool nega) {
    a = std::max(a, LO); b = std::min(b, HI); if (a >= b) return;
    Zones::Exclusion e = Zones::Exclusion::weighted<O>(a, b, w[0], w[1], w[2], w[3], w[4], w[5], nega);
    for (int k = 0; k < 8; ++k) if (k >= a && k + 1 <= b && cells[k].free) { cells[k].sm += e.sm; cells[k].smx += e.smx; cells[k].c += e.c; }
}
static void model_apply(Cell *cells, const ZOp &o) {
    auto excl = [&](float a, float b) { a = std::max(a, LO); b = std::min(b, HI); if (a >= b) return; for (int k = 0; k < 8; ++k) if (k >= a && k + 1 <= b) cells[k].free = false; };
    if (o.kind == 0) excl(o.a, o.b);
    else if (o.kind == 1) { excl(o.a, o.b); float wl[6] = { 0, 0, MWT, o.a - MARGIN, 0, 0 }, wr[6] = { 0, 0, MWT, o.b + MARGIN, 0, 0 };
        if (o.v < 2) { model_weighted<XY>(cells, o.a - MARGIN, o.a, wl, false); model_weighted<XY>(cells, o.b, o.b + MARGIN, wr, false); } else { model_weighted<SD>(cells, o.a - MARGIN, o.a, wl, false); model_weighted<SD>(cells, o.b, o.b + MARGIN, wr, false); } }
    else if (o.kind == 2) model_weighted<XY>(cells, o.a, o.b, WT[o.v], false);
    else model_weighted<SD>(cells, o.a, o.b, WT[o.v], true);
}
static void real_apply(Zones &z, const ZOp &o) {
    if (o.kind == 0) z.exclude(o.a, o.b); else if (o.kind == 1) z.exclude_with_margins(o.a, o.b, o.v);
    else if (o.kind == 2) z.weighted<XY>(o.a, o.b, WT[o.v][0], WT[o.v][1], WT[o.v][2], WT[o.v][3], WT[o.v][4], WT[o.v][5], false);
    else z.weighted<SD>(o.a, o.b, WT[o.v][0], WT[o.v][1], WT[o.v][2], WT[o.v][3], WT[o.v][4], WT[o.v][5], true);
}
// returns nullptr if fine
static const char *zones_invariants(const Zones &z, const Cell *cells /*may be null*/, float lo, float hi) {
    float prev = lo; bool first = true; bool covered[8] = { false };
    for (Zones::const_iterator i = z.begin(); i != z.end(); ++i) {
        if (cells ? !(i->x < i->xm) : (i->x > i->xm)) return "an interval is reversed (x > xm)";        // a single-point interval is legal when the bounds themselves are a point
        if (i->x < lo || i->xm > hi) return "an interval lies outside the bounds";
        if (!first && i->x < prev) return "intervals are not sorted / overlap";
        prev = i->xm; first = false;
        if (cells) for (int k = 0; k < 8; ++k) if (k + 1 > i->x && k < i->xm) {       // cell k intersects the interval
            if (!(k >= i->x && k + 1 <= i->xm)) return "an interval boundary is not on the lattice";
            if (!cells[k].free) return "an excluded cell is offered as free";
            if (covered[k]) return "a cell is covered twice";
            covered[k] = true;
            if (std::fabs(i->sm - cells[k].sm) > 1e-3f || std::fabs(i->smx - cells[k].smx) > 1e-3f || std::fabs(i->c - cells[k].c) > 1e-2f) return "cost coefficients differ from the reference sum"; }
    }
    if (cells) for (int k = 0; k < 8; ++k) if (cells[k].free && !covered[k]) return "a free cell is missing from the interval set";
    return nullptr;
}
static void setup_zones(Runner &r, const Tier &t) {
    zones_ops(t.thorough); g_zdepth = t.thorough ? 4 : 3; uint64_t n = g_zops.size(), total = 0, p = 1; for (int d = 0; d <= g_zdepth; ++d) { total += p; p *= n; }
    r.ncases = total * 2; r.alarm_every = 4096; r.case_alarm_s = 60;
    auto dec = [](uint64_t i, std::vector<int> &seq, int &kind) { kind = i & 1; i >>= 1; uint64_t n = g_zops.size(), p = 1; seq.clear(); for (int d = 0; d <= g_zdepth; ++d) { if (i < p) { for (int k = 0; k < d; ++k) { seq.push_back(int(i % n)); i /= n; } return; } i -= p; p *= n; } };
    r.describe = [dec](uint64_t i) { std::vector<int> s; int k; dec(i, s, k); JObj o; o.kv("object", "Zones").kv("initialise", k ? "SD" : "XY"); JArr a; for (int x : s) { const ZOp &op = g_zops[x]; char b[64]; snprintf(b, sizeof b, "%s(%d,%d,%d)", op.kind == 0 ? "exclude" : op.kind == 1 ? "exclude_with_margins" : op.kind == 2 ? "weightedXY" : "weightedSD", op.a, op.b, op.v); a.add(b); } o.raw("ops", a.str()); return o; };
    r.body = [dec](uint64_t i, ShardCtl &c) {
        static std::vector<int> s; int kind; dec(i, s, kind); Zones z; Cell cells[8];
        if (kind) z.initialise<SD>(LO, HI, MARGIN, MWT, 1.5f); else z.initialise<XY>(LO, HI, MARGIN, MWT, 1.5f);
        { Zones::Exclusion e = kind ? Zones::Exclusion::weighted<SD>(LO, HI, 1, 1.5f, 0, 0, 0, 0, false) : Zones::Exclusion::weighted<XY>(LO, HI, 1, 1.5f, 0, 0, 0, 0, false); for (auto &cl : cells) { cl.free = true; cl.sm = e.sm; cl.smx = e.smx; cl.c = e.c; } }
        const char *why = nullptr; int at = -1;
        for (size_t k = 0; k < s.size() && !why; ++k) { real_apply(z, g_zops[s[k]]); model_apply(cells, g_zops[s[k]]); why = zones_invariants(z, cells, LO, HI); at = int(k); }
        if (!why) { bool anyfree = false; for (auto &cl : cells) anyfree |= cl.free;
            for (float org = -1; org <= 9 && !why; org += 0.5f) { float cost = 0; float p = z.closest(org, cost);
                if (!anyfree) { if (cost != -1) why = "closest() offers a position although every cell is excluded"; }
                else if (cost == -1) why = "closest() finds nothing although free cells exist";
                else { int k = int(std::floor(p)); bool ok = false; for (int q = std::max(0, k - 1); q <= std::min(7, k); ++q) if (cells[q].free && p >= q && p <= q + 1) ok = true; if (!ok) why = "closest() returned a position inside an excluded region"; } } }
        c.counters[0] = c.counters[0] + s.size(); unsigned freemask = 0; for (int k = 0; k < 8; ++k) freemask |= cells[k].free << k; c.cls(freemask * 2 + kind + 1);
        if (why) { JObj o; o.kv("object", "Zones").kv("kind", "zones_invariant").kv("why", why).kv("after_op", at); report_fail(i, o); }
    };
}
static void extra_z(const Runner &r, JObj &o) { o.kv("operations_applied", (unsigned long long)r.counters[0]); }

// ------------------------------------------------------------------ end to end through the hooks
struct Oct { float xi, xa, yi, ya, si, sa, di, da; };
static Oct oct_at(const graphite2::BBox &b, const graphite2::SlantBox &s, float px, float py) { return { b.xi + px, b.xa + px, b.yi + py, b.ya + py, s.si + px + py, s.sa + px + py, s.di + px - py, s.da + px - py }; }
static float penetration(const Oct &a, const Oct &b) {   // <= 0: separated on some axis (octagons with edge normals x, y, x+y, x-y: these four axes decide exactly)
    float ox = std::min(a.xa, b.xa) - std::max(a.xi, b.xi), oy = std::min(a.ya, b.ya) - std::max(a.yi, b.yi);
    float os = (std::min(a.sa, b.sa) - std::max(a.si, b.si)) * 0.70710678f, od = (std::min(a.da, b.da) - std::max(a.di, b.di)) * 0.70710678f;
    return std::min(std::min(ox, oy), std::min(os, od));
}
// "within reach of the limit rectangle" as the engine defines it (ShiftCollider::mergeSlot short circuit): the neighbour's bounding box,
// relative to the target's un-offset origin, meets the collider's limit rectangle (plus margin) in x or in y
static bool within_reach(const graphite2::ShiftCollider &coll, const graphite2::BBox &nb, float sx, float sy) {
    const graphite2::Rect &L = coll._limit; float m = coll._margin;
    return (sx + nb.xa + m >= L.bl.x && sx + nb.xi - m <= L.tr.x) || (sy + nb.ya + m >= L.bl.y && sy + nb.yi - m <= L.tr.y);
}
static const void *g_res_target = nullptr; static float g_res_shx = 0, g_res_shy = 0; static bool g_res_finite = false, g_res_iscol = false, g_res_ltr_asym = false;
static std::vector<const void*> g_merged; static const void *g_merge_target = nullptr; static ShardCtl *g_ectl = nullptr; static uint64_t g_eidx = 0; static std::string g_edesc; static int g_edir = 0; static bool g_efailed = false;
extern "C" void graphite2_verif_coll_merge(const void *, const void *target, const void *nbor) { if (target != g_merge_target) { g_merged.clear(); g_merge_target = target; } g_merged.push_back(nbor); }
extern "C" void graphite2_verif_coll_resolved(const void *segp, const void *targetp, const void *collp, float shx, float shy, int is_col) {
    using namespace graphite2; Segment *seg = (Segment*)segp; Slot *t = (Slot*)targetp; ShiftCollider *coll = (ShiftCollider*)collp; SlotCollision *ct = seg->collisionInfo(t);
    if (g_merge_target != targetp) g_merged.clear();
    if (g_ectl) g_ectl->counters[0] = g_ectl->counters[0] + 1;
    const char *why = nullptr; char detail[256] = "";
    const Rect lim = ct->limit(); const Position off = ct->offset(), cur = ct->shift();
    bool finite = std::fabs(shx) < 1e38f && std::fabs(shy) < 1e38f;
    bool wellformed = lim.bl.x <= lim.tr.x && lim.bl.y <= lim.tr.y;
    bool ltr_asym = (g_edir & 1) == 0 && std::fabs(lim.bl.x + lim.tr.x) > 0.01f;      // outside the property's domain (DESIGN 7.1)
    const float tol0 = 0.01f; const Position accs = off + cur;
    bool inside_start = accs.x >= lim.bl.x - tol0 && accs.x <= lim.tr.x + tol0 && accs.y >= lim.bl.y - tol0 && accs.y <= lim.tr.y + tol0;
    // Zones invariants of the four axis ranges at resolve time (their bounds come from the limit rectangle and the current shift,
    // so they are only required to be well formed when those are)
    if (wellformed && inside_start) for (int a = 0; a < 4 && !why; ++a) { const Zones &z = coll->_ranges[a]; if (const char *w = zones_invariants(z, nullptr, -1e30f, 1e30f)) { why = w; snprintf(detail, sizeof detail, "axis %d", a); } }
    if (!why && finite && wellformed && !ltr_asym) {
        const float tol = 0.01f; Position acc0 = off + cur;
        bool inside0 = acc0.x >= lim.bl.x - tol && acc0.x <= lim.tr.x + tol && acc0.y >= lim.bl.y - tol && acc0.y <= lim.tr.y + tol;
        if (inside0 && !is_col) { Position acc(off.x + shx, off.y + shy);
            if (acc.x < lim.bl.x - tol || acc.x > lim.tr.x + tol || acc.y < lim.bl.y - tol || acc.y > lim.tr.y + tol) { why = "shift moves the accumulated collision offset outside the limit rectangle"; snprintf(detail, sizeof detail, "offset+shift=(%g,%g) limit=[%g,%g]x[%g,%g]", acc.x, acc.y, lim.bl.x, lim.tr.x, lim.bl.y, lim.tr.y); }
            if (g_ectl) g_ectl->counters[1] = g_ectl->counters[1] + 1; }
    }
    if (!why && finite && !is_col && !ltr_asym) {
        const GlyphCache &gc = seg->getFace()->glyphs(); unsigned short tg = t->gid();
        // as in ShiftCollider::mergeSlot: target placement = slot origin + shift of this pass, neighbour placement = its origin + its shift
        if (gc.check(tg)) { Oct to2 = oct_at(gc.getBoundingBBox(tg), gc.getBoundingSlantBox(tg), t->origin().x + shx, t->origin().y + shy);
            for (const void *np : g_merged) { Slot *n = (Slot*)np; SlotCollision *cn = seg->collisionInfo(n); unsigned short ng = n->gid(); if (!gc.check(ng) || cn->ignore()) continue;
                float px = n->origin().x + cn->shift().x, py = n->origin().y + cn->shift().y; float worst = -1e30f; unsigned ns = gc.numSubBounds(ng);
                if (!within_reach(*coll, gc.getBoundingBBox(ng), px - coll->_origin.x, py - coll->_origin.y)) continue;
                auto pen = [&](const Oct &no) { return penetration(to2, no); };
                if (ns == 0) worst = pen(oct_at(gc.getBoundingBBox(ng), gc.getBoundingSlantBox(ng), px, py));
                else for (unsigned k = 0; k < ns; ++k) worst = std::max(worst, pen(oct_at(gc.getSubBoundingBBox(ng, uint8(k)), gc.getSubBoundingSlantBox(ng, uint8(k)), px, py)));
                if (g_ectl) g_ectl->counters[2] = g_ectl->counters[2] + 1;
                if (worst > 0.05f) { why = "glyph reported as resolved still overlaps a merged neighbour"; snprintf(detail, sizeof detail, "target gid %u neighbour gid %u penetration %.3f shift=(%g,%g)", tg, ng, worst, shx, shy); break; } }
        }
    }
    g_res_target = targetp; g_res_shx = shx; g_res_shy = shy; g_res_finite = finite; g_res_iscol = is_col != 0; g_res_ltr_asym = ltr_asym;       // the merged list is kept for the stored-state hook
    if (why && !g_efailed) { g_efailed = true; JObj o; o.kv("kind", "collision_resolve").kv("why", why).kv("detail", detail).kv("case_desc", g_edesc).kv("dir", g_edir); report_fail(g_eidx, o); }
}
// after the engine has stored the shift and updated the flags: a glyph whose collision-remains flag is clear must not overlap the merged neighbours at its STORED shift
extern "C" void graphite2_verif_coll_stored(const void *segp, const void *targetp, const void *collp) {
    using namespace graphite2; Segment *seg = (Segment*)segp; Slot *t = (Slot*)targetp; ShiftCollider *coll = (ShiftCollider*)collp; SlotCollision *ct = seg->collisionInfo(t);
    const char *why = nullptr; char detail[256] = "";
    if (g_res_target == targetp && g_res_finite && !g_res_ltr_asym && g_merge_target == targetp) {
        bool flag_iscol = (ct->flags() & SlotCollision::COLL_ISCOL) != 0;
        if (flag_iscol != g_res_iscol) { why = "collision-remains flag differs from the verdict of the fix just computed"; }
        else if (!flag_iscol) { const Position sh = ct->shift(); if (g_ectl) g_ectl->counters[5] = g_ectl->counters[5] + 1;
            // the verdict was computed for the shift resolve() returned (checked geometrically in the resolve hook): that shift must be the one that is stored
            // (neighbours that are attached to the target are re-finalised in between, so the geometry is not re-evaluated here)
            if (std::fabs(sh.x - g_res_shx) > 1e-3f || std::fabs(sh.y - g_res_shy) > 1e-3f) { why = "glyph flagged as resolved, but the stored shift is not the shift the verdict was computed for"; snprintf(detail, sizeof detail, "target gid %u stored shift=(%g,%g) computed=(%g,%g)", unsigned(t->gid()), sh.x, sh.y, g_res_shx, g_res_shy); } }
    }
    g_merged.clear(); g_merge_target = nullptr; g_res_target = nullptr;
    if (why && !g_efailed) { g_efailed = true; JObj o; o.kv("kind", "collision_stored").kv("why", why).kv("detail", detail).kv("case_desc", g_edesc).kv("dir", g_edir); report_fail(g_eidx, o); }
}

// KernCollider::resolve observed through the hook: accumulated kern offset + new kern inside the x range of a well-formed limit rectangle
extern "C" void graphite2_verif_kern_resolved(const void *segp, const void *targetp, float shx, float shy) {
    using namespace graphite2; Segment *seg = (Segment*)segp; Slot *t = (Slot*)targetp; SlotCollision *ct = seg->collisionInfo(t);
    if (g_ectl) g_ectl->counters[3] = g_ectl->counters[3] + 1;
    const Rect lim = ct->limit(); const Position off = ct->offset(); const char *why = nullptr; char detail[200] = "";
    if (!(std::fabs(shx) < 1e30f) || shy != 0.f) { why = "kern shift is not a finite horizontal move"; snprintf(detail, sizeof detail, "shift=(%g,%g)", shx, shy); }
    else if (lim.bl.x <= lim.tr.x) { float acc = off.x + shx, tol = 0.01f + 1e-5f * (std::fabs(lim.bl.x) + std::fabs(lim.tr.x) + std::fabs(off.x)); if (g_ectl) g_ectl->counters[4] = g_ectl->counters[4] + 1;
        if (acc < lim.bl.x - tol || acc > lim.tr.x + tol) { why = "kern moves the accumulated collision offset outside the limit rectangle"; snprintf(detail, sizeof detail, "offset.x+kern=%g limit.x=[%g,%g]", acc, lim.bl.x, lim.tr.x); } }
    if (why && !g_efailed) { g_efailed = true; JObj o; o.kv("kind", "kern_resolve").kv("why", why).kv("detail", detail).kv("case_desc", g_edesc).kv("dir", g_edir); report_fail(g_eidx, o); }
}

static Corpus g_c; static FaceCache *g_fc; static std::vector<std::string> g_syn; static std::vector<std::vector<std::string>> g_syntx; struct ECase { int kind, font, item, dir; }; static std::vector<ECase> g_ec;
static void setup_e2e(Runner &r, const Tier &t) {
    g_c.build({ "Awami_test.ttf", "Awami_compressed_test.ttf", "AwamiNastaliq-Regular.ttf" }, 0, { 1, 3 }); g_ec.clear();
    for (size_t i = 0; i < g_c.cases.size(); ++i) g_ec.push_back({ 0, g_c.cases[i].font, g_c.cases[i].item, g_c.cases[i].dir });
    g_syn = { gen_dir() + "/s_full.ttf", gen_dir() + "/s_full_rtl.ttf", gen_dir() + "/s_full_nosub.ttf" }; g_syntx.clear(); static const uint32_t alpha[7] = { 0x61, 0x62, 0x64, 0x20, 0x301, 0x300, 0x63 };
    for (size_t f = 0; f < g_syn.size(); ++f) { std::vector<std::string> tx; int maxlen = t.thorough ? 5 : 4; for (int L = 1; L <= maxlen; ++L) { int n = 1; for (int k = 0; k < L; ++k) n *= 7; for (int v = 0; v < n; ++v) { std::vector<uint8_t> b; int x = v, marks = 0; for (int k = 0; k < L; ++k) { if (x % 7 == 4 || x % 7 == 5) ++marks; ref::enc8(alpha[x % 7], b); x /= 7; } if (marks) tx.push_back(std::string(b.begin(), b.end())); } }
        g_syntx.push_back(tx); for (int it = 0; it < int(tx.size()); ++it) for (int d : { 0, 1 }) g_ec.push_back({ 1, int(f), it, d }); }
    r.ncases = g_ec.size(); r.case_alarm_s = 120; r.shard_init = [](int) { g_fc = new FaceCache; };
    r.describe = [](uint64_t i) { const ECase &c = g_ec[i]; const std::string &font = c.kind ? g_syn[c.font] : g_c.fonts[c.font]; const std::string &tx = c.kind ? g_syntx[c.font][c.item] : g_c.items[c.font][c.item]; JObj o; o.kv("font", font).kv("text_utf8_hex", hex(tx.data(), tx.size())).kv("dir", c.dir).kv("observed", "every ShiftCollider::resolve during shaping"); return o; };
    r.body = [](uint64_t i, ShardCtl &ctl) { const ECase &c = g_ec[i]; const std::string &font = c.kind ? g_syn[c.font] : g_c.fonts[c.font]; const std::string &tx = c.kind ? g_syntx[c.font][c.item] : g_c.items[c.font][c.item];
        gr_face *f = g_fc->get(font, gr_face_preloadAll); if (!f) return; g_ectl = &ctl; g_eidx = i; g_edir = c.dir; g_edesc = font + " " + hex(tx.data(), tx.size()); g_efailed = false; g_merged.clear(); g_merge_target = nullptr;
        gr_segment *s = gr_make_seg(nullptr, f, 0, nullptr, gr_utf8, tx.c_str(), utf8_count(tx), c.dir); if (s) { ctl.cls(hash_str(dump_segment(s))); gr_seg_destroy(s); } g_ectl = nullptr; };
}

// ------------------------------------------------------------------ ShiftCollider component lattice
// A real Segment on a real collision font; target slot at the origin, ONE neighbour slot placed on a lattice of origins;
// glyphs, limit rectangle, margin, accumulated offset, current shift, direction and the isAfter flag are enumerated.
struct LCase { int font; int tg, ng; int limit, margin, off, sh, dir, after; int ng2; };
// one report per (reason, zero-area limit?, font, neighbours) per shard: a systematic failure must not exhaust the per-shard failure cap and cut the exploration short
static bool lattice_first(const char *why, bool zero, int font, int k) { static std::set<std::string> seen; return seen.insert(std::string(why) + (zero ? "|z" : "|n") + char('0' + font) + char('0' + k)).second; }
static std::vector<LCase> g_lc; static std::vector<std::string> g_lfonts; static std::vector<std::vector<unsigned short>> g_lgids; static int g_lat = 21;
static const float LIM[5][4] = { { -60, -60, 60, 60 }, { -400, -400, 400, 400 }, { -300, -40, 300, 500 }, { -150, -150, 150, 150 }, { 0, 0, 0, 0 } };   // bl.x bl.y tr.x tr.y (x-symmetric: valid for LTR too)
static const float OFFS[6][2] = { { 0, 0 }, { 30, 0 }, { -30, 0 }, { 0, 30 }, { 0, -30 }, { 20, -20 } }; static const float SHS[2][2] = { { 0, 0 }, { 15, 0 } };
static void setup_lattice(Runner &r, const Tier &t) {
    g_lc.clear(); g_lfonts = { "Awami_test.ttf", gen_dir() + "/s_full.ttf" }; g_lgids.clear(); g_lat = t.thorough ? 31 : 21;
    for (size_t f = 0; f < g_lfonts.size(); ++f) { FaceCache fc; gr_face *face = fc.get(g_lfonts[f], gr_face_preloadAll); std::vector<unsigned short> gids; if (face) { const graphite2::GlyphCache &gc = static_cast<const graphite2::Face*>(face)->glyphs(); std::set<unsigned short> seen;
            std::vector<std::string> tx = f == 0 ? corpus_items("awami_tests.txt", 60, true) : std::vector<std::string>{ "a\xCC\x81\xCC\x80 b c" };
            for (auto &x : tx) { gr_segment *s = gr_make_seg(nullptr, face, 0, nullptr, gr_utf8, x.c_str(), utf8_count(x), f == 0 ? 1 : 0); if (!s) continue; for (const gr_slot *q = gr_seg_first_slot(s); q; q = gr_slot_next_in_segment(q)) { unsigned short g = gr_slot_gid(q); const graphite2::BBox &b = gc.getBoundingBBox(g);
                    if (gc.check(g) && b.xa > b.xi && b.ya > b.yi && seen.insert(g).second) { bool sub = gc.numSubBounds(g) > 0; size_t nsub = 0; for (auto h : gids) if (gc.numSubBounds(h) > 0) ++nsub; if (gids.size() < (t.thorough ? 8u : 5u) && (sub ? nsub < 3 : gids.size() - nsub < (t.thorough ? 5u : 3u))) gids.push_back(g); } } gr_seg_destroy(s); } }
        g_lgids.push_back(gids);
        for (int a = 0; a < int(gids.size()); ++a) for (int b = 0; b < int(gids.size()); ++b) for (int l = 0; l < 5; ++l) for (int m = 0; m < 2; ++m) for (int o = 0; o < 6; ++o) for (int sh = 0; sh < 2; ++sh) for (int dir = 0; dir < 2; ++dir) for (int af = 0; af < 2; ++af) { if (!t.thorough && (sh == 1 && o > 2)) continue; g_lc.push_back({ int(f), a, b, l, m, o, sh, dir, af, 0 }); } }
    r.ncases = g_lc.size(); r.case_alarm_s = 120; r.shard_init = [](int) { g_fc = new FaceCache; };
    r.describe = [](uint64_t i) { const LCase &c = g_lc[i]; JObj o; o.kv("font", g_lfonts[c.font]).kv("target_gid", g_lgids[c.font][c.tg]).kv("neighbour_gid", g_lgids[c.font][c.ng]).kv("limit", c.limit).kv("margin", c.margin ? 20 : 0).kv("offset_index", c.off).kv("shift_index", c.sh).kv("dir", c.dir).kv("is_after", c.after).kv("neighbour_origins", "lattice " + std::to_string(g_lat) + "x" + std::to_string(g_lat)); return o; };
    r.body = [](uint64_t i, ShardCtl &ctl) {
        using namespace graphite2; const LCase &c = g_lc[i]; gr_face *face = g_fc->get(g_lfonts[c.font], gr_face_preloadAll); if (!face) return;
        const char *tx = c.font == 0 ? "\xD8\xA8\xD8\xA8\xD8\xA8" : "abc"; gr_segment *gs = gr_make_seg(nullptr, face, 0, nullptr, gr_utf8, tx, 3, c.font == 0 ? 1 : 0); if (!gs) return;
        Segment *seg = static_cast<Segment*>(gs); if (!seg->hasCollisionInfo() || seg->slotCount() < 2) { gr_seg_destroy(gs); return; }
        Slot *t = seg->first(), *n = t->next(); const GlyphCache &gc = seg->getFace()->glyphs(); unsigned short tg = g_lgids[c.font][c.tg], ng = g_lgids[c.font][c.ng];
        t->setGlyph(seg, tg); n->setGlyph(seg, ng); while (t->firstChild()) { Slot *ch = t->firstChild(); t->removeChild(ch); ch->attachTo(NULL); } if (n->attachedTo()) { n->attachedTo()->removeChild(n); n->attachTo(NULL); }
        const BBox &tb = gc.getBoundingBBox(tg), &nb = gc.getBoundingBBox(ng); float span = (tb.xa - tb.xi) + (nb.xa - nb.xi) + (tb.ya - tb.yi) + (nb.ya - nb.yi); if (span <= 0) span = 1000;
        Rect limit(Position(LIM[c.limit][0], LIM[c.limit][1]), Position(LIM[c.limit][2], LIM[c.limit][3])); float margin = c.margin ? 20.f : 0.f, mwt = c.margin ? 10.f : 0.f; Position off(OFFS[c.off][0], OFFS[c.off][1]), sh(SHS[c.sh][0], SHS[c.sh][1]);
        SlotCollision *ct = seg->collisionInfo(t), *cn = seg->collisionInfo(n); cn->setFlags(0); cn->setShift(Position(0, 0)); cn->setOffset(Position(0, 0));
        const float tol = 0.01f; Position acc0 = off + sh; bool inside0 = acc0.x >= limit.bl.x - tol && acc0.x <= limit.tr.x + tol && acc0.y >= limit.bl.y - tol && acc0.y <= limit.tr.y + tol;
        t->origin(Position(0, 0));
        for (int ix = 0; ix < g_lat; ++ix) for (int iy = 0; iy < g_lat; ++iy) {
            float nx = (ix - g_lat / 2) * span / g_lat, ny = (iy - g_lat / 2) * span / g_lat; n->origin(Position(nx, ny));
            ShiftCollider coll(NULL); if (!coll.initSlot(seg, t, limit, margin, mwt, sh, off, c.dir, NULL)) continue;
            bool collides = false; if (!coll.mergeSlot(seg, n, cn, cn->shift(), c.after != 0, false, collides, false, NULL)) continue;
            bool isCol = false; Position res = coll.resolve(seg, isCol, NULL); ctl.counters[0] = ctl.counters[0] + 1;
            const char *why = nullptr; char detail[200] = "";
            for (int a = 0; a < 4 && !why && inside0; ++a) if (const char *w = zones_invariants(coll._ranges[a], nullptr, -1e30f, 1e30f)) why = w;
            if (!why && !isCol && inside0) { Position acc(off.x + res.x, off.y + res.y); ctl.counters[1] = ctl.counters[1] + 1;
                if (acc.x < limit.bl.x - tol || acc.x > limit.tr.x + tol || acc.y < limit.bl.y - tol || acc.y > limit.tr.y + tol) { why = "shift moves the accumulated collision offset outside the limit rectangle"; snprintf(detail, sizeof detail, "offset+shift=(%g,%g)", acc.x, acc.y); } }
            if (!why && !isCol) { Oct to = oct_at(tb, gc.getBoundingSlantBox(tg), res.x, res.y); float worst = -1e30f; unsigned ns = gc.numSubBounds(ng);
                if (ns == 0) worst = penetration(to, oct_at(nb, gc.getBoundingSlantBox(ng), nx, ny)); else for (unsigned k = 0; k < ns; ++k) worst = std::max(worst, penetration(to, oct_at(gc.getSubBoundingBBox(ng, uint8(k)), gc.getSubBoundingSlantBox(ng, uint8(k)), nx, ny)));
                if (!within_reach(coll, nb, nx - coll._origin.x, ny - coll._origin.y)) worst = -1e30f; else ctl.counters[2] = ctl.counters[2] + 1;
                if (collides) ctl.counters[3] = ctl.counters[3] + 1;
                // "within reach": only a neighbour the target could touch inside its limit is relevant; the collider skips the others and leaves the target where it is
                if (worst > 0.05f) { why = "glyph reported as resolved still overlaps the neighbour"; snprintf(detail, sizeof detail, "neighbour at (%g,%g) shift (%g,%g) penetration %.3f collides=%d", nx, ny, res.x, res.y, worst, int(collides)); } }
            if (why) { JObj o; o.kv("kind", "collider_lattice").kv("why", why).kv("detail", detail).kv("font", g_lfonts[c.font]).kv("target_gid", tg).kv("neighbour_gid", ng).kv("dir", c.dir).kv("dir_ltr", (c.dir & 1) == 0).kv("limit", c.limit).kv("limit_zero_area", limit.bl.x == limit.tr.x && limit.bl.y == limit.tr.y).kv("offset_index", c.off).kv("offset_x", double(off.x)).kv("shift_index", c.sh).kv("is_after", c.after).kv("margin", double(margin)); bool zero = limit.bl.x == limit.tr.x && limit.bl.y == limit.tr.y; if (lattice_first(why, zero, c.font, 1)) report_fail(i, o); else ctl.counters[4] = ctl.counters[4] + 1; ix = iy = g_lat; }
        }
        ctl.cls(uint64_t(tg) * 70001 + ng * 31 + c.limit); (void)ct; gr_seg_destroy(gs);
    };
}

static std::vector<LCase> g_lcs;
// ---- one neighbour with sequence-order constraints (collision.order, sameCluster) or an exclusion glyph on the neighbour
static void setup_lattice_seq(Runner &r, const Tier &t) {
    g_lcs.clear(); g_lfonts = { "Awami_test.ttf", gen_dir() + "/s_full.ttf" }; g_lgids.clear(); g_lat = t.thorough ? 31 : 21;
    for (size_t f = 0; f < g_lfonts.size(); ++f) { FaceCache fc; gr_face *face = fc.get(g_lfonts[f], gr_face_preloadAll); std::vector<unsigned short> gids; if (face) { const graphite2::GlyphCache &gc = static_cast<const graphite2::Face*>(face)->glyphs(); std::set<unsigned short> seen;
            std::vector<std::string> tx = f == 0 ? corpus_items("awami_tests.txt", 60, true) : std::vector<std::string>{ "a\xCC\x81\xCC\x80 b c" };
            for (auto &x : tx) { gr_segment *s = gr_make_seg(nullptr, face, 0, nullptr, gr_utf8, x.c_str(), utf8_count(x), f == 0 ? 1 : 0); if (!s) continue; for (const gr_slot *q = gr_seg_first_slot(s); q; q = gr_slot_next_in_segment(q)) { unsigned short g = gr_slot_gid(q); const graphite2::BBox &b = gc.getBoundingBBox(g);
                    if (gc.check(g) && b.xa > b.xi && b.ya > b.yi && seen.insert(g).second) { bool sub = gc.numSubBounds(g) > 0; size_t nsub = 0; for (auto h : gids) if (gc.numSubBounds(h) > 0) ++nsub; if (gids.size() < (t.thorough ? 8u : 5u) && (sub ? nsub < 3 : gids.size() - nsub < (t.thorough ? 5u : 3u))) gids.push_back(g); } } gr_seg_destroy(s); } }
        g_lgids.push_back(gids);
        for (int a = 0; a < int(gids.size()); ++a) for (int b = 0; b < int(gids.size()); ++b) for (int l = 0; l < 4; ++l) for (int m = 0; m < 2; ++m) for (int o : { 0, 1, 5 }) for (int dir = 0; dir < 2; ++dir) for (int af = 0; af < 2; ++af) for (int sq = 0; sq < 14; ++sq) { if (!t.thorough && (o == 5 && sq >= 7)) continue; g_lcs.push_back({ int(f), a, b, l, m, o, 0, dir, af, sq }); } }
    r.ncases = g_lcs.size(); r.case_alarm_s = 120; r.shard_init = [](int) { g_fc = new FaceCache; };
    r.describe = [](uint64_t i) { const LCase &c = g_lcs[i]; JObj o; o.kv("font", g_lfonts[c.font]).kv("target_gid", g_lgids[c.font][c.tg]).kv("neighbour_gid", g_lgids[c.font][c.ng]).kv("limit", c.limit).kv("margin", c.margin ? 20 : 0).kv("offset_index", c.off).kv("shift_index", c.sh).kv("dir", c.dir).kv("is_after", c.after).kv("sequence_variant", c.ng2).kv("neighbour_origins", "lattice " + std::to_string(g_lat) + "x" + std::to_string(g_lat)); return o; };
    r.body = [](uint64_t i, ShardCtl &ctl) {
        using namespace graphite2; const LCase &c = g_lcs[i]; gr_face *face = g_fc->get(g_lfonts[c.font], gr_face_preloadAll); if (!face) return;
        const char *tx = c.font == 0 ? "\xD8\xA8\xD8\xA8\xD8\xA8" : "abc"; gr_segment *gs = gr_make_seg(nullptr, face, 0, nullptr, gr_utf8, tx, 3, c.font == 0 ? 1 : 0); if (!gs) return;
        Segment *seg = static_cast<Segment*>(gs); if (!seg->hasCollisionInfo() || seg->slotCount() < 2) { gr_seg_destroy(gs); return; }
        Slot *t = seg->first(), *n = t->next(); const GlyphCache &gc = seg->getFace()->glyphs(); unsigned short tg = g_lgids[c.font][c.tg], ng = g_lgids[c.font][c.ng];
        t->setGlyph(seg, tg); n->setGlyph(seg, ng); while (t->firstChild()) { Slot *ch = t->firstChild(); t->removeChild(ch); ch->attachTo(NULL); } if (n->attachedTo()) { n->attachedTo()->removeChild(n); n->attachTo(NULL); }
        const BBox &tb = gc.getBoundingBBox(tg), &nb = gc.getBoundingBBox(ng); float span = (tb.xa - tb.xi) + (nb.xa - nb.xi) + (tb.ya - tb.yi) + (nb.ya - nb.yi); if (span <= 0) span = 1000;
        Rect limit(Position(LIM[c.limit][0], LIM[c.limit][1]), Position(LIM[c.limit][2], LIM[c.limit][3])); float margin = c.margin ? 20.f : 0.f, mwt = c.margin ? 10.f : 0.f; Position off(OFFS[c.off][0], OFFS[c.off][1]), sh(SHS[c.sh][0], SHS[c.sh][1]);
        SlotCollision *ct = seg->collisionInfo(t), *cn = seg->collisionInfo(n); cn->setFlags(0); cn->setShift(Position(0, 0)); cn->setOffset(Position(0, 0)); { static const uint16 ORD[6] = { 1, 2, 4, 8, 16, 32 }; int sq = c.ng2; if (sq < 12) { ct->setSeqClass(1); ct->setSeqProxClass(sq >= 6 ? 2 : 0); ct->setSeqOrder(ORD[sq % 6]); cn->setSeqClass(sq >= 6 ? 2 : 1); cn->setSeqAboveXoff(30); cn->setSeqAboveWt(12); cn->setSeqBelowXlim(20); cn->setSeqBelowWt(7); cn->setSeqValignHt(40); cn->setSeqValignWt(5); cn->setExclGlyph(0); }
            else { ct->setSeqClass(0); ct->setSeqOrder(0); cn->setExclGlyph(g_lgids[c.font][(c.ng + 1) % g_lgids[c.font].size()]); cn->setExclOffset(Position(sq == 12 ? 60.f : -60.f, sq == 12 ? 0.f : 40.f)); } }
        const float tol = 0.01f; Position acc0 = off + sh; bool inside0 = acc0.x >= limit.bl.x - tol && acc0.x <= limit.tr.x + tol && acc0.y >= limit.bl.y - tol && acc0.y <= limit.tr.y + tol;
        t->origin(Position(0, 0));
        for (int ix = 0; ix < g_lat; ++ix) for (int iy = 0; iy < g_lat; ++iy) {
            float nx = (ix - g_lat / 2) * span / g_lat, ny = (iy - g_lat / 2) * span / g_lat; n->origin(Position(nx, ny));
            ShiftCollider coll(NULL); if (!coll.initSlot(seg, t, limit, margin, mwt, sh, off, c.dir, NULL)) continue;
            bool collides = false; if (!coll.mergeSlot(seg, n, cn, cn->shift(), c.after != 0, c.ng2 < 12, collides, false, NULL)) continue;
            bool isCol = false; Position res = coll.resolve(seg, isCol, NULL); ctl.counters[0] = ctl.counters[0] + 1;
            const char *why = nullptr; char detail[200] = "";
            for (int a = 0; a < 4 && !why && inside0; ++a) if (const char *w = zones_invariants(coll._ranges[a], nullptr, -1e30f, 1e30f)) why = w;
            if (!why && !isCol && inside0) { Position acc(off.x + res.x, off.y + res.y); ctl.counters[1] = ctl.counters[1] + 1;
                if (acc.x < limit.bl.x - tol || acc.x > limit.tr.x + tol || acc.y < limit.bl.y - tol || acc.y > limit.tr.y + tol) { why = "shift moves the accumulated collision offset outside the limit rectangle"; snprintf(detail, sizeof detail, "offset+shift=(%g,%g)", acc.x, acc.y); } }
            if (!why && !isCol) { Oct to = oct_at(tb, gc.getBoundingSlantBox(tg), res.x, res.y); float worst = -1e30f; unsigned ns = gc.numSubBounds(ng);
                if (ns == 0) worst = penetration(to, oct_at(nb, gc.getBoundingSlantBox(ng), nx, ny)); else for (unsigned k = 0; k < ns; ++k) worst = std::max(worst, penetration(to, oct_at(gc.getSubBoundingBBox(ng, uint8(k)), gc.getSubBoundingSlantBox(ng, uint8(k)), nx, ny)));
                if (!within_reach(coll, nb, nx - coll._origin.x, ny - coll._origin.y)) worst = -1e30f; else ctl.counters[2] = ctl.counters[2] + 1;
                if (collides) ctl.counters[3] = ctl.counters[3] + 1;
                // "within reach": only a neighbour the target could touch inside its limit is relevant; the collider skips the others and leaves the target where it is
                if (worst > 0.05f) { why = "glyph reported as resolved still overlaps the neighbour"; snprintf(detail, sizeof detail, "neighbour at (%g,%g) shift (%g,%g) penetration %.3f collides=%d", nx, ny, res.x, res.y, worst, int(collides)); } }
            if (why) { JObj o; o.kv("kind", "collider_lattice").kv("sequence_variant", c.ng2).kv("why", why).kv("detail", detail).kv("font", g_lfonts[c.font]).kv("target_gid", tg).kv("neighbour_gid", ng).kv("dir", c.dir).kv("dir_ltr", (c.dir & 1) == 0).kv("limit", c.limit).kv("limit_zero_area", limit.bl.x == limit.tr.x && limit.bl.y == limit.tr.y).kv("offset_index", c.off).kv("offset_x", double(off.x)).kv("shift_index", c.sh).kv("is_after", c.after).kv("margin", double(margin)); bool zero = limit.bl.x == limit.tr.x && limit.bl.y == limit.tr.y; if (lattice_first(why, zero, c.font, 4 + (c.ng2 >= 12))) report_fail(i, o); else ctl.counters[4] = ctl.counters[4] + 1; ix = iy = g_lat; }
        }
        ctl.cls(uint64_t(tg) * 70001 + ng * 31 + c.limit); (void)ct; gr_seg_destroy(gs);
    };
}

// ---- two neighbours: target at the origin, neighbour 1 and neighbour 2 each on their own lattice (the product of both lattices is enumerated)
static std::vector<LCase> g_lc2; static int g_lat2 = 7;
static void setup_lattice2(Runner &r, const Tier &t) {
    Runner dummy; setup_lattice(dummy, t);     // fonts and glyph selection as for one neighbour
    g_lc2.clear(); g_lat2 = t.thorough ? 9 : 7;
    for (size_t f = 0; f < g_lfonts.size(); ++f) { int ng = std::min<int>(int(g_lgids[f].size()), t.thorough ? 5 : 4);
        for (int a = 0; a < ng; ++a) for (int b = 0; b < ng; ++b) for (int b2 = b; b2 < ng; ++b2) for (int l = 0; l < 4; ++l) for (int m = 0; m < 2; ++m) for (int o : { 0, 1, 5 }) for (int sh = 0; sh < 2; ++sh) for (int dir = 0; dir < 2; ++dir) for (int af = 0; af < 4; ++af) { if (!t.thorough && ((sh == 1 && o != 0) || af == 2)) continue; g_lc2.push_back({ int(f), a, b, l, m, o, sh, dir, af, b2 }); } }
    r.ncases = g_lc2.size(); r.case_alarm_s = 300; r.shard_init = [](int) { g_fc = new FaceCache; };
    r.describe = [](uint64_t i) { const LCase &c = g_lc2[i]; JObj o; o.kv("font", g_lfonts[c.font]).kv("target_gid", g_lgids[c.font][c.tg]).kv("neighbour1_gid", g_lgids[c.font][c.ng]).kv("neighbour2_gid", g_lgids[c.font][c.ng2]).kv("limit", c.limit).kv("margin", c.margin ? 20 : 0).kv("offset_index", c.off).kv("shift_index", c.sh).kv("dir", c.dir).kv("is_after_bits", c.after).kv("neighbour_origins", "lattice (" + std::to_string(g_lat2) + "x" + std::to_string(g_lat2) + ")^2"); return o; };
    r.body = [](uint64_t i, ShardCtl &ctl) {
        using namespace graphite2; const LCase &c = g_lc2[i]; gr_face *face = g_fc->get(g_lfonts[c.font], gr_face_preloadAll); if (!face) return;
        const char *tx = c.font == 0 ? "\xD8\xA8\xD8\xA8\xD8\xA8" : "abc"; gr_segment *gs = gr_make_seg(nullptr, face, 0, nullptr, gr_utf8, tx, 3, c.font == 0 ? 1 : 0); if (!gs) return;
        Segment *seg = static_cast<Segment*>(gs); if (!seg->hasCollisionInfo() || seg->slotCount() < 3) { gr_seg_destroy(gs); return; }
        Slot *t = seg->first(), *n[2] = { t->next(), t->next()->next() }; const GlyphCache &gc = seg->getFace()->glyphs(); unsigned short tg = g_lgids[c.font][c.tg], ng[2] = { g_lgids[c.font][c.ng], g_lgids[c.font][c.ng2] };
        for (Slot *q = seg->first(); q; q = q->next()) { while (q->firstChild()) { Slot *ch = q->firstChild(); q->removeChild(ch); ch->attachTo(NULL); } }
        t->setGlyph(seg, tg); n[0]->setGlyph(seg, ng[0]); n[1]->setGlyph(seg, ng[1]);
        const BBox &tb = gc.getBoundingBBox(tg); const BBox *nb[2] = { &gc.getBoundingBBox(ng[0]), &gc.getBoundingBBox(ng[1]) }; float span[2];
        for (int k = 0; k < 2; ++k) { span[k] = (tb.xa - tb.xi) + (nb[k]->xa - nb[k]->xi) + (tb.ya - tb.yi) + (nb[k]->ya - nb[k]->yi); if (span[k] <= 0) span[k] = 1000; }
        Rect limit(Position(LIM[c.limit][0], LIM[c.limit][1]), Position(LIM[c.limit][2], LIM[c.limit][3])); float margin = c.margin ? 20.f : 0.f, mwt = c.margin ? 10.f : 0.f; Position off(OFFS[c.off][0], OFFS[c.off][1]), sh(SHS[c.sh][0], SHS[c.sh][1]);
        SlotCollision *cn[2] = { seg->collisionInfo(n[0]), seg->collisionInfo(n[1]) }; for (int k = 0; k < 2; ++k) { cn[k]->setFlags(0); cn[k]->setShift(Position(0, 0)); cn[k]->setOffset(Position(0, 0)); }
        const float tol = 0.01f; Position acc0 = off + sh; bool inside0 = acc0.x >= limit.bl.x - tol && acc0.x <= limit.tr.x + tol && acc0.y >= limit.bl.y - tol && acc0.y <= limit.tr.y + tol;
        t->origin(Position(0, 0)); const int L = g_lat2; bool stop = false;
        for (int i1 = 0; i1 < L * L && !stop; ++i1) { if ((i1 & 7) == 0 && deadline_hit(ctl)) break;
          for (int i2 = 0; i2 < L * L && !stop; ++i2) {
            float px[2] = { (i1 / L - L / 2) * span[0] / L, (i2 / L - L / 2) * span[1] / L }, py[2] = { (i1 % L - L / 2) * span[0] / L, (i2 % L - L / 2) * span[1] / L };
            for (int k = 0; k < 2; ++k) n[k]->origin(Position(px[k], py[k]));
            ShiftCollider coll(NULL); if (!coll.initSlot(seg, t, limit, margin, mwt, sh, off, c.dir, NULL)) continue;
            bool collides = false, okm = true; for (int k = 0; k < 2 && okm; ++k) okm = coll.mergeSlot(seg, n[k], cn[k], cn[k]->shift(), ((c.after >> k) & 1) != 0, false, collides, false, NULL); if (!okm) continue;
            bool isCol = false; Position res = coll.resolve(seg, isCol, NULL); ctl.counters[0] = ctl.counters[0] + 1;
            const char *why = nullptr; char detail[240] = "";
            for (int a = 0; a < 4 && !why && inside0; ++a) if (const char *w = zones_invariants(coll._ranges[a], nullptr, -1e30f, 1e30f)) why = w;
            if (!why && !isCol && inside0) { Position acc(off.x + res.x, off.y + res.y); ctl.counters[1] = ctl.counters[1] + 1;
                if (acc.x < limit.bl.x - tol || acc.x > limit.tr.x + tol || acc.y < limit.bl.y - tol || acc.y > limit.tr.y + tol) { why = "shift moves the accumulated collision offset outside the limit rectangle"; snprintf(detail, sizeof detail, "offset+shift=(%g,%g)", acc.x, acc.y); } }
            if (!why && !isCol) { Oct to = oct_at(tb, gc.getBoundingSlantBox(tg), res.x, res.y);
                for (int k = 0; k < 2 && !why; ++k) { if (!within_reach(coll, *nb[k], px[k] - coll._origin.x, py[k] - coll._origin.y)) continue; ctl.counters[2] = ctl.counters[2] + 1;
                    float worst = -1e30f; unsigned ns = gc.numSubBounds(ng[k]);
                    if (ns == 0) worst = penetration(to, oct_at(*nb[k], gc.getBoundingSlantBox(ng[k]), px[k], py[k])); else for (unsigned q = 0; q < ns; ++q) worst = std::max(worst, penetration(to, oct_at(gc.getSubBoundingBBox(ng[k], uint8(q)), gc.getSubBoundingSlantBox(ng[k], uint8(q)), px[k], py[k])));
                    if (worst > 0.05f) { why = "glyph reported as resolved still overlaps the neighbour"; snprintf(detail, sizeof detail, "neighbour %d; neighbours at (%g,%g) (%g,%g) shift (%g,%g) penetration %.3f collides=%d", k + 1, px[0], py[0], px[1], py[1], res.x, res.y, worst, int(collides)); } }
                if (collides) ctl.counters[3] = ctl.counters[3] + 1; }
            if (why) { bool zero = limit.bl.x == limit.tr.x && limit.bl.y == limit.tr.y; JObj o; o.kv("kind", "collider_lattice").kv("neighbours", 2).kv("why", why).kv("detail", detail).kv("font", g_lfonts[c.font]).kv("target_gid", tg).kv("neighbour_gid", ng[0]).kv("neighbour2_gid", ng[1]).kv("dir", c.dir).kv("dir_ltr", (c.dir & 1) == 0).kv("limit", c.limit).kv("limit_zero_area", zero).kv("offset_index", c.off).kv("offset_x", double(off.x)).kv("shift_index", c.sh).kv("is_after", c.after).kv("margin", double(margin));
                if (getenv("C17_DEBUG")) { fprintf(stdout, "DEBUG _limit=[%g,%g]x[%g,%g] origin=(%g,%g) tb=[%g,%g]x[%g,%g]\n", coll._limit.bl.x, coll._limit.tr.x, coll._limit.bl.y, coll._limit.tr.y, coll._origin.x, coll._origin.y, tb.xi, tb.xa, tb.yi, tb.ya); const SlantBox &ts = gc.getBoundingSlantBox(tg); fprintf(stdout, "DEBUG tsb s[%g,%g] d[%g,%g]\n", ts.si, ts.sa, ts.di, ts.da);
                    for (int k = 0; k < 2; ++k) { const SlantBox &q = gc.getBoundingSlantBox(ng[k]); fprintf(stdout, "DEBUG n%d bb=[%g,%g]x[%g,%g] s[%g,%g] d[%g,%g] nsub=%u at (%g,%g)\n", k, nb[k]->xi, nb[k]->xa, nb[k]->yi, nb[k]->ya, q.si, q.sa, q.di, q.da, gc.numSubBounds(ng[k]), px[k], py[k]); }
                    for (int a = 0; a < 4; ++a) { fprintf(stdout, "DEBUG axis %d [%g,%g]:", a, coll._ranges[a]._pos, coll._ranges[a]._posm); for (auto it = coll._ranges[a].begin(); it != coll._ranges[a].end(); ++it) fprintf(stdout, " (%g..%g sm=%g smx=%g c=%g)", it->x, it->xm, it->sm, it->smx, it->c); fprintf(stdout, "\n"); } }
                if (lattice_first(why, zero, c.font, 2)) report_fail(i, o); else ctl.counters[4] = ctl.counters[4] + 1; stop = true; }
        } }
        ctl.cls(uint64_t(tg) * 70001 + ng[0] * 31 + ng[1] * 7 + c.limit); gr_seg_destroy(gs);
    };
}

// ---- KernCollider lattice: target at the origin, one neighbour on a lattice; initSlot / mergeSlot / resolve / shift as Pass::resolveKern drives them
static std::vector<LCase> g_lck;
static const float KOFF[4] = { 0, 30, -30, 200 }; static const float KSPACE[2] = { 0, 50 };
static void setup_kern(Runner &r, const Tier &t) {
    Runner dummy; setup_lattice(dummy, t); g_lck.clear();
    for (size_t f = 0; f < g_lfonts.size(); ++f) { int ng = int(g_lgids[f].size());
        for (int a = 0; a < ng; ++a) for (int b = 0; b < ng; ++b) for (int l = 0; l < 5; ++l) for (int m = 0; m < 2; ++m) for (int o = 0; o < 4; ++o) for (int sp = 0; sp < 2; ++sp) for (int dir = 0; dir < 2; ++dir) g_lck.push_back({ int(f), a, b, l, m, o, sp, dir, 0, 0 }); }
    r.ncases = g_lck.size(); r.case_alarm_s = 120; r.shard_init = [](int) { g_fc = new FaceCache; };
    r.describe = [](uint64_t i) { const LCase &c = g_lck[i]; JObj o; o.kv("collider", "KernCollider").kv("font", g_lfonts[c.font]).kv("target_gid", g_lgids[c.font][c.tg]).kv("neighbour_gid", g_lgids[c.font][c.ng]).kv("limit", c.limit).kv("margin", c.margin ? 20 : 0).kv("offset_prev_x", double(KOFF[c.off])).kv("curr_space", double(KSPACE[c.sh])).kv("dir", c.dir).kv("neighbour_origins", "lattice " + std::to_string(g_lat) + "x" + std::to_string(g_lat)); return o; };
    r.body = [](uint64_t i, ShardCtl &ctl) {
        using namespace graphite2; const LCase &c = g_lck[i]; gr_face *face = g_fc->get(g_lfonts[c.font], gr_face_preloadAll); if (!face) return;
        const char *tx = c.font == 0 ? "\xD8\xA8\xD8\xA8\xD8\xA8" : "abc"; gr_segment *gs = gr_make_seg(nullptr, face, 0, nullptr, gr_utf8, tx, 3, c.font == 0 ? 1 : 0); if (!gs) return;
        Segment *seg = static_cast<Segment*>(gs); if (!seg->hasCollisionInfo() || seg->slotCount() < 2) { gr_seg_destroy(gs); return; }
        Slot *t = seg->first(), *n = t->next(); const GlyphCache &gc = seg->getFace()->glyphs(); unsigned short tg = g_lgids[c.font][c.tg], ng = g_lgids[c.font][c.ng];
        for (Slot *q = seg->first(); q; q = q->next()) { while (q->firstChild()) { Slot *ch = q->firstChild(); q->removeChild(ch); ch->attachTo(NULL); } }
        t->setGlyph(seg, tg); n->setGlyph(seg, ng);
        const BBox &tb = gc.getBoundingBBox(tg), &nb = gc.getBoundingBBox(ng); float span = (tb.xa - tb.xi) + (nb.xa - nb.xi) + (tb.ya - tb.yi) + (nb.ya - nb.yi); if (span <= 0) span = 1000;
        Rect limit(Position(LIM[c.limit][0], LIM[c.limit][1]), Position(LIM[c.limit][2], LIM[c.limit][3])); float margin = c.margin ? 20.f : 0.f; Position offp(KOFF[c.off], 0), sh(0, 0);
        SlotCollision *ct = seg->collisionInfo(t), *cn = seg->collisionInfo(n); cn->setFlags(0); cn->setShift(Position(0, 0)); cn->setOffset(Position(0, 0)); ct->setShift(sh);
        t->origin(Position(0, 0)); const Rect &bbb = seg->theGlyphBBoxTemporary(tg); float ymin = 1e38f, ymax = -1e38f; ymax = std::max(bbb.tr.y, ymax); ymin = std::min(bbb.bl.y, ymin);
        for (int ix = 0; ix < g_lat; ++ix) for (int iy = 0; iy < g_lat; ++iy) {
            float nx = (ix - g_lat / 2) * span / g_lat, ny = (iy - g_lat / 2) * span / g_lat; n->origin(Position(nx, ny));
            KernCollider coll(NULL); if (!coll.initSlot(seg, t, limit, margin, sh, offp, c.dir, ymin, ymax, NULL)) continue;
            bool collides = coll.mergeSlot(seg, n, cn->shift(), KSPACE[c.sh], c.dir, NULL); ctl.counters[0] = ctl.counters[0] + 1; if (!collides) continue;
            Position mv = coll.resolve(seg, t, c.dir, NULL); coll.shift(mv, c.dir); ctl.counters[3] = ctl.counters[3] + 1;
            const char *why = nullptr; char detail[200] = "";
            if (!(std::fabs(mv.x) < 1e30f) || mv.y != 0.f) { why = "kern shift is not a finite horizontal move"; snprintf(detail, sizeof detail, "kern=(%g,%g)", mv.x, mv.y); }
            else if (limit.bl.x <= limit.tr.x) { ctl.counters[1] = ctl.counters[1] + 1; float acc = offp.x + mv.x, tol = 0.01f + 1e-5f * (std::fabs(limit.bl.x) + std::fabs(limit.tr.x) + std::fabs(offp.x));
                if (acc < limit.bl.x - tol || acc > limit.tr.x + tol) { why = "kern moves the accumulated collision offset outside the limit rectangle"; snprintf(detail, sizeof detail, "offset.x+kern=%g limit.x=[%g,%g] neighbour at (%g,%g)", acc, limit.bl.x, limit.tr.x, nx, ny); } }
            if (why) { JObj o; o.kv("kind", "kern_lattice").kv("why", why).kv("detail", detail).kv("font", g_lfonts[c.font]).kv("target_gid", tg).kv("neighbour_gid", ng).kv("dir", c.dir).kv("limit", c.limit).kv("offset_prev_x", double(offp.x)).kv("margin", double(margin)); if (lattice_first(why, false, c.font, 3)) report_fail(i, o); else ctl.counters[4] = ctl.counters[4] + 1; ix = iy = g_lat; }
        }
        ctl.cls(uint64_t(tg) * 70001 + ng * 31 + c.limit + 1000003); gr_seg_destroy(gs);
    };
}
static void extra_l(const Runner &r, JObj &o) { o.kv("arrangements", (unsigned long long)r.counters[0]); }
static void extra_e(const Runner &r, JObj &o) { o.kv("resolves_observed", (unsigned long long)r.counters[0]); }
int main(int argc, char **argv) {
    std::vector<Sub> subs;
    { Sub s; s.name = "zones_sequences"; s.setup = setup_zones; s.budget_quick = 120; s.budget_thorough = 900; s.counter_names = { "operations" }; s.extra = extra_z; subs.push_back(s); }
    { Sub s; s.name = "end_to_end"; s.setup = setup_e2e; s.budget_quick = 120; s.budget_thorough = 900; s.counter_names = { "resolves", "limit_clause_checked", "neighbour_pairs_checked", "kern_resolves", "kern_limit_clause_checked", "stored_shifts_checked" }; s.extra = extra_e; subs.push_back(s); }
    { Sub s; s.name = "collider_lattice"; s.setup = setup_lattice; s.budget_quick = 140; s.budget_thorough = 1200; s.counter_names = { "arrangements", "limit_clause_checked", "verdict_checked", "with_collision", "repeat_failures_not_reported" }; s.extra = extra_l; subs.push_back(s); }
    { Sub s; s.name = "collider_lattice2"; s.setup = setup_lattice2; s.budget_quick = 150; s.budget_thorough = 1500; s.counter_names = { "arrangements", "limit_clause_checked", "verdict_checked", "with_collision", "repeat_failures_not_reported" }; s.extra = extra_l; subs.push_back(s); }
    { Sub s; s.name = "collider_lattice_seq"; s.setup = setup_lattice_seq; s.budget_quick = 120; s.budget_thorough = 900; s.counter_names = { "arrangements", "limit_clause_checked", "verdict_checked", "with_collision", "repeat_failures_not_reported" }; s.extra = extra_l; subs.push_back(s); }
    { Sub s; s.name = "kern_lattice"; s.setup = setup_kern; s.budget_quick = 100; s.budget_thorough = 600; s.counter_names = { "arrangements", "limit_clause_checked", "unused", "kern_resolves", "repeat_failures_not_reported" }; s.extra = extra_l; subs.push_back(s); }
    return check_main(argc, argv, "C17", subs);
}
