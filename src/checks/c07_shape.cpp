// C07 (library part): the library shapes every text identically whether built with the direct-threaded or the
// call-threaded interpreter.  This harness shapes (shipped font x corpus item x dir) cases and emits one
// observation hash per case; the driver runs it in both builds and compares the hash files line by line.
#include "common/corpus.hpp"
#include "common/segcheck.hpp"
using namespace vf;

static Corpus g_c; static FaceCache *g_fc;

static void setup(Runner &r, const Tier &t) {
    g_c.build({}, t.thorough ? 0 : 1500, { 0, 1 });
    r.ncases = g_c.cases.size(); r.case_alarm_s = 120;
    r.shard_init = [](int) { g_fc = new FaceCache; };
    r.describe = [](uint64_t i) { return g_c.describe(i); };
    r.body = [](uint64_t i, ShardCtl &c) {
        const CorpusCase &cs = g_c.cases[i]; gr_face *f = g_fc->get(g_c.fonts[cs.font], gr_face_preloadAll);
        const std::string &txt = g_c.items[cs.font][cs.item];
        gr_segment *s = f ? gr_make_seg(nullptr, f, 0, nullptr, gr_utf8, txt.c_str(), utf8_count(txt), cs.dir) : nullptr;
        std::string d = f ? dump_segment(s) : "NOFACE";
        uint64_t h = hash_str(d); emit_hash(i, h); c.cls(h); c.counters[0] = c.counters[0] + 1;
        if (s) gr_seg_destroy(s);
    };
}
int main(int argc, char **argv) {
    std::vector<Sub> subs;
    { Sub s; s.name = "corpus"; s.setup = setup; s.budget_quick = 100; s.budget_thorough = 900; s.counter_names = { "segments" }; subs.push_back(s); }
    return check_main(argc, argv, "C07s", subs);
}
