// C10: face options change resource behaviour, never results.
// faceOptions 0..7 x {table callbacks, file} = 16 configurations per font: face dump and every segment dump
// (bitwise, positions included) must equal those of configuration (0, callbacks); preloadAll => no get_table after load.
#include "common/corpus.hpp"
#include "common/segcheck.hpp"
using namespace vf;

struct FontSet { std::string path; std::vector<std::string> texts; };
static std::vector<FontSet> g_fs; struct Case { int font; int item; int dir; int lang; };
static std::vector<Case> g_cases;
struct Conf { gr_face *face = nullptr; MemFace *mf = nullptr; TableSet *ts = nullptr; unsigned long gets_after_load = 0; };
static std::map<int, std::vector<Conf>> g_conf;      // per font: 16 configurations
static std::map<int, std::string> g_facedump_fail;

static std::vector<Conf> &confs(int fi) {
    auto it = g_conf.find(fi); if (it != g_conf.end()) return it->second;
    std::vector<Conf> v(16); const std::string &p = g_fs[fi].path;
    for (unsigned o = 0; o < 8; ++o) { Conf &c = v[o]; c.ts = new TableSet; c.ts->from_file(p); c.mf = new MemFace; c.mf->ts = c.ts; c.face = c.mf->make(o); c.gets_after_load = c.mf->n_get; }
    for (unsigned o = 0; o < 8; ++o) { Conf &c = v[8 + o]; c.face = gr_make_file_face(p.c_str(), o); }
    return g_conf[fi] = v;
}
static void setup(Runner &r, const Tier &t) {
    g_fs.clear(); g_cases.clear();
    for (auto &sf : shipped_fonts()) { if (std::string(sf.file) == "tiny.ttf") continue; FontSet f; f.path = font_path(sf.file); f.texts = corpus_items(sf.corpus, (t.thorough || std::string(sf.file).find("Awami") != std::string::npos) ? 0 : 60, true);  /* collision fonts: whole corpus (exclusion glyphs, kerning are reached by few lines) */ f.texts.push_back(""); f.texts.push_back("a"); g_fs.push_back(f); }
    static const uint32_t alpha[9] = { 0x61, 0x62, 0x63, 0x64, 0x65, 0x66, 0x20, 0x301, 0x300 };
    for (const char *g : { "s_full", "s_full_z", "s_full_nosub", "s_full_noglyf", "s_full_extra", "s_full_dense", "s_full_cmapedge", "s_full_c12bmp", "s_full_excl", "s_full_pb", "s_full_unsorted", "s_full_bidi", "s_full_rtl_bidi", "s_full_v3", "s_full_v4", "s_full_rtl", "s_min", "feat_40_mixed" }) {
        FontSet f; f.path = gen_dir() + "/" + g + ".ttf"; int maxlen = t.thorough ? 3 : 2;
        for (int L = 0; L <= maxlen; ++L) { int n = 1; for (int k = 0; k < L; ++k) n *= 9; for (int v = 0; v < n; ++v) { std::vector<uint8_t> b; int x = v; for (int k = 0; k < L; ++k) { ref::enc8(alpha[x % 9], b); x /= 9; } f.texts.push_back(std::string(b.begin(), b.end())); } }
        f.texts.push_back("a\xCC\x81\xCC\x80 b\xCC\x80"); f.texts.push_back("cab\xF0\x90\x80\x80"); f.texts.push_back("a\x01\x02 \xEF\xBF\xBC\xEF\xBF\xBD" "b");
        g_fs.push_back(f); }
    for (int fi = 0; fi < int(g_fs.size()); ++fi) { g_cases.push_back({ fi, -1, 0, 0 });     // item -1: the face dump comparison
        for (int it = 0; it < int(g_fs[fi].texts.size()); ++it) for (int d : { 0, 1, 3 }) for (int lang = 0; lang < (it % 7 == 0 ? 2 : 1); ++lang) g_cases.push_back({ fi, it, d, lang }); }
    r.ncases = g_cases.size(); r.case_alarm_s = 300;
    r.describe = [](uint64_t i) { const Case &c = g_cases[i]; JObj o; o.kv("font", g_fs[c.font].path).kv("configs", "faceOptions 0..7 x {callbacks,file}");
        if (c.item < 0) o.kv("what", "face dump"); else { const std::string &t = g_fs[c.font].texts[c.item]; o.kv("text_utf8_hex", hex(t.data(), t.size())).kv("dir", c.dir).kv("lang_index", c.lang); } return o; };
    r.body = [](uint64_t i, ShardCtl &ctl) {
        const Case &c = g_cases[i]; std::vector<Conf> &cf = confs(c.font);
        if (c.item < 0) {
            int loaded = 0; for (auto &x : cf) if (x.face) ++loaded;
            if (loaded != 0 && loaded != 16) { std::string which; for (int k = 0; k < 16; ++k) which += cf[k].face ? '1' : '0'; JObj o; o.kv("font", g_fs[c.font].path).kv("kind", "loads_with_some_options_only").kv("loaded_mask", which); report_fail(i, o); return; }
            if (!loaded) { ctl.cls(7); return; }
            std::string d0 = dump_face(cf[0].face);
            for (int k = 1; k < 16; ++k) { unsigned long g0 = k < 8 ? cf[k].mf->n_get : 0; std::string d = dump_face(cf[k].face); ctl.counters[0] = ctl.counters[0] + 1;
                if (k < 8 && (k & 6) == 6 && cf[k].mf->n_get != g0) { JObj o; o.kv("font", g_fs[c.font].path).kv("kind", "get_table_after_preloadAll").kv("during", "face queries (features, labels, languages)").kv("config", k).kv("calls", (unsigned long long)(cf[k].mf->n_get - g0)); report_fail(i, o); break; }
                if (d != d0) { JObj o; o.kv("font", g_fs[c.font].path).kv("kind", "face_dump_differs").kv("config", k).kv("options", k & 7).kv("source", k < 8 ? "callbacks" : "file"); size_t p = 0; while (p < d.size() && p < d0.size() && d[p] == d0[p]) ++p; o.kv("first_difference", d0.substr(p > 40 ? p - 40 : 0, 120) + " <> " + d.substr(p > 40 ? p - 40 : 0, 120)); report_fail(i, o); break; } }
            ctl.cls(hash_str(d0)); return;
        }
        if (!cf[0].face) return;
        const std::string &txt = g_fs[c.font].texts[c.item]; size_t n = utf8_count(txt); std::string d0;
        for (int k = 0; k < 16; ++k) {
            gr_face *f = cf[k].face; if (!f) continue;
            unsigned long g0 = k < 8 ? cf[k].mf->n_get : 0;
            gr_feature_val *fv = nullptr; if (c.lang && gr_face_n_languages(f)) fv = gr_face_featureval_for_lang(f, gr_face_lang_by_index(f, 0));
            gr_segment *s = gr_make_seg(nullptr, f, 0, fv, gr_utf8, txt.c_str(), n, c.dir);
            std::string d = dump_segment(s); if (s) gr_seg_destroy(s); if (fv) gr_featureval_destroy(fv);
            ctl.counters[0] = ctl.counters[0] + 1;
            if (k == 0) d0 = d;
            else if (d != d0) { JObj o; o.kv("font", g_fs[c.font].path).kv("text_utf8_hex", hex(txt.data(), txt.size())).kv("dir", c.dir).kv("kind", "segment_differs").kv("config", k).kv("options", k & 7).kv("source", k < 8 ? "callbacks" : "file");
                size_t p = 0; while (p < d.size() && p < d0.size() && d[p] == d0[p]) ++p; o.kv("first_difference", d0.substr(p > 60 ? p - 60 : 0, 160) + " <> " + d.substr(p > 60 ? p - 60 : 0, 160)); report_fail(i, o); break; }
            if (k < 8 && (k & 6) == 6 && cf[k].mf->n_get != g0) { JObj o; o.kv("font", g_fs[c.font].path).kv("kind", "get_table_after_preloadAll").kv("during", "gr_make_seg").kv("config", k).kv("calls", (unsigned long long)(cf[k].mf->n_get - g0)); report_fail(i, o); break; }
        }
        ctl.cls(hash_str(d0));
    };
}
int main(int argc, char **argv) {
    std::vector<Sub> subs;
    { Sub s; s.name = "config_product"; s.setup = setup; s.budget_quick = 140; s.budget_thorough = 1100; s.counter_names = { "comparisons" }; subs.push_back(s); }
    return check_main(argc, argv, "C10", subs);
}
