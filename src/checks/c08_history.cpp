// C08: shaping is a pure function of its arguments (history independent).
// Explicit-state search over API histories on ONE face + ONE font; in every state all probe segments and the face dump
// must equal those of a fresh face.  State key = the mutable state reachable from the face/font (loaded glyph set,
// box set, name table presence, cached advances) + live segments; plus a plain depth-limited enumeration without
// deduplication so that a wrong key cannot hide a shallow bug.
#include "common/corpus.hpp"
#include "common/segcheck.hpp"
#include "inc/Face.h"
#include "inc/GlyphCache.h"
#include "inc/Font.h"
#include <deque>
using namespace vf;

struct Root { std::string font; unsigned opts; bool hinted; std::vector<std::string> texts; };
static std::vector<Root> g_roots; static bool g_thor;
static float adv_cb(const void *, gr_uint16 gid) { return 7.0f + gid; }   // deterministic "hinted" advances

struct World { TableSet ts; MemFace mf; gr_face *face = nullptr; gr_font *font = nullptr; gr_font *font2 = nullptr; gr_segment *seg[2] = { nullptr, nullptr }; int segp[2] = { 0, 0 }; };
static gr_feature_val *feats(gr_face *f, int mode) {   // 0 default, 1 first language, 2 default with the first feature modified
    if (mode == 1 && gr_face_n_languages(f)) return gr_face_featureval_for_lang(f, gr_face_lang_by_index(f, 0));
    gr_feature_val *fv = gr_face_featureval_for_lang(f, 0);
    if (mode == 2 && gr_face_n_fref(f)) { const gr_feature_ref *r = gr_face_fref(f, 0); if (gr_fref_n_values(r) > 1) gr_fref_set_feature_value(r, uint16_t(gr_fref_value(r, 1)), fv); }
    return fv;
}
static std::string shape(World &w, const Root &rt, int t, int d, int fm, bool withfont) {
    gr_feature_val *fv = feats(w.face, fm); const std::string &tx = rt.texts[t];
    gr_segment *s = gr_make_seg(withfont ? w.font : nullptr, w.face, 0, fv, gr_utf8, tx.c_str(), utf8_count(tx), d);
    SegDumpOpts o; o.face = w.face; o.font = withfont ? w.font : nullptr; std::string dmp = dump_segment(s, o); if (s) gr_seg_destroy(s); gr_featureval_destroy(fv); return dmp;
}
// probe list: (text, dir, feature mode, with font) ... and the face dump as the last probe
struct Probe { int t, d, fm, wf; };
static std::vector<Probe> probe_list(const Root &rt) { std::vector<Probe> v; for (int t = 0; t < int(rt.texts.size()); ++t) for (int d : { 0, 1, 3 }) for (int fm = 0; fm < 3; ++fm) for (int wf = 0; wf < 2; ++wf) v.push_back({ t, d, fm, wf }); v.push_back({ -1, 0, 0, 0 }); return v; }
static std::string run_probe(World &w, const Root &rt, const Probe &p) { return p.t < 0 ? dump_face(w.face) : shape(w, rt, p.t, p.d, p.fm, p.wf != 0); }
enum { OP_SEG0 = 0, /* texts(<=4) x dir(2) x feat(2) x font(2) = 32 */ OP_D0 = 32, OP_D1, OP_JUST, OP_BREAK, OP_LABEL, OP_VLABEL, OP_FVAL, OP_SUPP, OP_FDUMP, OP_FONT2, OP_DFONT2, NOPS };
static bool enabled(const World &w, const Root &rt, int o) {
    if (o < OP_D0) { int t = o / 8; return t < int(rt.texts.size()) && !(w.seg[0] && w.seg[1]); }
    if (o == OP_D0) return w.seg[0]; if (o == OP_D1) return w.seg[1]; if (o == OP_JUST || o == OP_BREAK) return w.seg[0];
    if (o == OP_FONT2) return !w.font2; if (o == OP_DFONT2) return w.font2 != nullptr;
    return true;
}
static void apply(World &w, const Root &rt, int o) {
    if (o < OP_D0) { int t = o / 8, d = o / 4 % 2, fm = (o / 2 % 2) * 2, wf = o % 2; gr_feature_val *fv = feats(w.face, fm); int k = w.seg[0] ? 1 : 0; const std::string &tx = rt.texts[t];
        w.seg[k] = gr_make_seg(wf ? w.font : nullptr, w.face, 0, fv, gr_utf8, tx.c_str(), utf8_count(tx), d); w.segp[k] = o; gr_featureval_destroy(fv); }
    else if (o == OP_D0 || o == OP_D1) { int k = o - OP_D0; gr_seg_destroy(w.seg[k]); w.seg[k] = nullptr; }
    else if (o == OP_JUST) gr_seg_justify(w.seg[0], gr_seg_first_slot(w.seg[0]), (w.segp[0] & 1) ? w.font : nullptr, 3000.0, gr_justCompleteLine, nullptr, nullptr);
    else if (o == OP_BREAK) { const gr_slot *s = gr_seg_first_slot(w.seg[0]); if (s) s = gr_slot_next_in_segment(s); if (s && gr_slot_prev_in_segment(s) && !gr_slot_attached_to(s)) gr_slot_linebreak_before(const_cast<gr_slot*>(s)); }
    else if (o == OP_LABEL) { if (gr_face_n_fref(w.face)) { uint16_t l = 0x409; uint32_t n; void *p = gr_fref_label(gr_face_fref(w.face, 0), &l, gr_utf16, &n); if (p) gr_label_destroy(p); } }
    else if (o == OP_VLABEL) { if (gr_face_n_fref(w.face)) { uint16_t l = 0x40C; uint32_t n; void *p = gr_fref_value_label(gr_face_fref(w.face, 0), 0, &l, gr_utf8, &n); if (p) gr_label_destroy(p); } }
    else if (o == OP_FVAL) { gr_feature_val *fv = feats(w.face, 1); gr_featureval_destroy(fv); }
    else if (o == OP_SUPP) { volatile int r = gr_face_is_char_supported(w.face, 0x61, 0) + gr_face_is_char_supported(w.face, 0x1000, 0) + gr_face_is_char_supported(w.face, 0x10000, 0); (void)r; }
    else if (o == OP_FDUMP) { std::string d = dump_face(w.face); (void)d; }
    else if (o == OP_FONT2) w.font2 = gr_make_font(20.f, w.face);
    else if (o == OP_DFONT2) { gr_font_destroy(w.font2); w.font2 = nullptr; }
}
static std::string state_key(const World &w) {
    const graphite2::Face *F = static_cast<const graphite2::Face*>(w.face); const graphite2::GlyphCache &gc = F->glyphs(); std::string k;
    uint64_t hg = 0, hb = 0; unsigned ng = 0, nb = 0; for (unsigned g = 0; g < gc._num_glyphs; ++g) { if (gc._glyphs[g]) { hg = hg * 1000003 + g + 1; ++ng; } if (gc._boxes && gc._boxes[g]) { hb = hb * 1000003 + g + 1; ++nb; } }
    appf(k, "G%u:%llx B%u:%llx L%d N%d%d ", ng, (unsigned long long)hg, nb, (unsigned long long)hb, gc._glyph_loader ? 1 : 0, F->m_pNames ? 1 : 0, F->m_namesRead ? 1 : 0);
    const graphite2::Font *fo = static_cast<const graphite2::Font*>(w.font); uint64_t ha = 0; unsigned na = 0; if (fo && fo->m_advances) for (unsigned g = 0; g < gc._num_glyphs; ++g) if (fo->m_advances[g] != INVALID_ADVANCE) { ha = ha * 1000003 + g + 1; ++na; }
    int a = w.seg[0] ? w.segp[0] : -1, b = w.seg[1] ? w.segp[1] : -1; if (a > b) std::swap(a, b);
    appf(k, "A%u:%llx S%d,%d f%d", na, (unsigned long long)ha, a, b, w.font2 ? 1 : 0); return k;
}

static void setup(Runner &r, const Tier &t) {
    g_thor = t.thorough; g_roots.clear();
    struct FS { std::string f; std::vector<std::string> tx; };
    std::vector<FS> fs = { { gen_dir() + "/s_min.ttf", { "ab", "ba", "c", "abc" } }, { gen_dir() + "/s_full.ttf", { "cd", "c\xCC\x81", "de f", "a\xCC\x81\xCC\x80" } }     /* "cd": the advance of c is changed by a contextual rule; "c" + mark: the same glyph with its own advance */, { font_path("small.ttf"), { "abc", "cab", "aa", "b" } }, { gen_dir() + "/s_full_pb.ttf", { "f", "fd", "af", "cd e" } }, { gen_dir() + "/s_twoclass.ttf", { "cb", "b", "a", "ca" } },
        { gen_dir() + "/s_full_excl.ttf", { "a\xCC\x81\xCC\x80", "e", "c\xCC\x81\xCC\x80", "ae" } }     /* every mark names glyph e as its collision exclusion glyph: the collision pass consults a glyph that the text need not contain (loaded on demand on lazy faces) */,
        { gen_dir() + "/s_full_badglyph.ttf", { "e", "ae f", "de", "ea\xCC\x81" } }     /* glyph e is unreadable: demand-loading faces substitute glyph 0 for it, on EVERY lookup (preloading faces refuse the font: those roots are skipped) */ };
    if (t.thorough) fs.push_back({ font_path("Padauk.ttf"), { "\xE1\x80\x80\xE1\x80\xBB\xE1\x80\xBD\xE1\x80\x94\xE1\x80\xBA", "\xE1\x80\x99\xE1\x80\xBC\xE1\x80\x94\xE1\x80\xBA", "ab" } });
    for (auto &f : fs) for (unsigned o : { 0u, 2u, 4u, 6u }) for (int h = 0; h < 2; ++h) { if ((o & 2) && f.f.find("s_full_excl") != std::string::npos) continue;      /* the on-demand glyph load is the point of this root: lazy faces only */
        g_roots.push_back({ f.f, o, h == 1, f.tx }); }
    r.ncases = g_roots.size() * 2; r.case_alarm_s = unsigned(r.deadline_s) + 600;
    r.describe = [](uint64_t i) { const Root &rt = g_roots[i / 2]; JObj o; o.kv("font", rt.font).kv("face_options", rt.opts).kv("font_kind", rt.hinted ? "advance callback (hinted)" : "gr_make_font (unhinted)")
        .kv("search", i % 2 ? "plain depth-limited enumeration without deduplication" : "BFS to fixpoint on the mutable-state key").kv("probes", "texts x dir{0,1,3} x features{default,language,modified} x {font,NULL} + face dump"); return o; };
    r.body = [](uint64_t ci, ShardCtl &ctl) {
        const Root &rt = g_roots[ci / 2]; bool plain = ci % 2; TableSet ts; ts.from_file(rt.font);
        auto make = [&](World &w) { w.ts = ts; w.mf.ts = &w.ts; w.face = w.mf.make(rt.opts); if (!w.face) return false; w.font = rt.hinted ? gr_make_font_with_advance_fn(16.f, &w, adv_cb, w.face) : gr_make_font(16.f, w.face); return w.font != nullptr; };
        auto close = [&](World &w) { for (int k = 0; k < 2; ++k) if (w.seg[k]) gr_seg_destroy(w.seg[k]); if (w.font2) gr_font_destroy(w.font2); if (w.font) gr_font_destroy(w.font); if (w.face) gr_face_destroy(w.face); };
        // reference: every probe on its OWN fresh face and font (a probe must not depend on the probes before it either)
        std::vector<Probe> pl = probe_list(rt); std::vector<std::string> fresh;
        for (auto &p : pl) { World w; if (!make(w)) { close(w); return; } fresh.push_back(run_probe(w, rt, p)); close(w); }
        int maxdepth = plain ? (g_thor ? 3 : 2) : (g_thor ? 6 : 4); bool big = rt.font.find("Padauk") != std::string::npos; if (big) maxdepth = plain ? 1 : 2;
        struct Node { std::vector<int> hist; }; std::deque<Node> q; q.push_back({ {} }); std::set<std::string> seen; uint64_t states = 0, trans = 0; bool failed = false, frontier_emptied = true;
        while (!q.empty() && !failed) {
            if (deadline_hit(ctl)) { frontier_emptied = false; break; }
            Node n = q.front(); q.pop_front(); World w; if (!make(w)) { close(w); break; }
            for (int o : n.hist) { CallGuard cg(30); apply(w, rt, o); ++trans; }
            std::string key = state_key(w);
            bool isnew = plain || seen.insert(key).second;
            if (isnew) {
                ++states;
                for (size_t pi = 0; pi < pl.size() && !failed; ++pi) { std::string got; { CallGuard cg(30); got = run_probe(w, rt, pl[pi]); } const std::string &want = fresh[pi];
                    if (got != want) { std::string hs; for (int o : n.hist) hs += std::to_string(o) + " "; size_t p = 0; while (p < got.size() && p < want.size() && got[p] == want[p]) ++p;
                        JObj o; o.kv("font", rt.font).kv("face_options", rt.opts).kv("hinted", rt.hinted).kv("kind", "history_dependence").kv("history_ops", hs).kv("state_key", key).kv("probe_index", (unsigned long long)pi).kv("probes_before_it_in_this_state", (unsigned long long)pi)
                            .kv("first_difference", want.substr(p > 80 ? p - 80 : 0, 200) + " <> " + got.substr(p > 80 ? p - 80 : 0, 200)); report_fail(ci, o); failed = true; } }
                if (int(n.hist.size()) < maxdepth) { for (int o = 0; o < NOPS; ++o) if (enabled(w, rt, o)) { Node m; m.hist = n.hist; m.hist.push_back(o); q.push_back(m); } }
                else if (!plain) frontier_emptied = false;
            }
            close(w);
        }
        ctl.counters[0] = ctl.counters[0] + states; ctl.counters[1] = ctl.counters[1] + trans; if (!plain && frontier_emptied && !failed) ctl.counters[2] = ctl.counters[2] + 1;
        ctl.cls(hash_str(rt.font) * 7 + rt.opts * 4 + rt.hinted * 2 + plain);
    };
}

// ---- text-pair histories: one history step (shape text t1 / ask whether c1 is supported), then ONE probe (shape t2, is c2 supported), for EVERY ordered pair
// over a text set built to make coarse internal keys collide: base characters of the font, its pseudo-glyph characters, an unsupported character, and for each of
// them the code points c+1 (same 256-block), c+0x100 (same low byte), c+0x10000 (same low 16 bits)
struct PRoot { std::string font; unsigned opts; std::vector<uint32_t> base; int dir; };
static std::vector<PRoot> g_proots; static std::vector<std::vector<uint32_t>> g_pcps;
static std::string utf8_of(const std::vector<uint32_t> &cps) { std::vector<uint8_t> b; for (uint32_t c : cps) ref::enc8(c, b); return std::string(b.begin(), b.end()); }
static void setup_pairs(Runner &r, const Tier &t) {
    g_proots.clear(); g_pcps.clear();
    struct FS { std::string f; std::vector<uint32_t> base; int dir; };
    std::vector<FS> fs = { { gen_dir() + "/s_full.ttf", { 0x61, 0x62, 0x301, 0x10000, 0x10400 }, 0 }, { font_path("Awami_test.ttf"), { 0x628, 0x6CC, 0x200C }, 1 }, { font_path("small.ttf"), { 0x61, 0x62 }, 0 },
        { gen_dir() + "/s_full_c12bmp.ttf", { 0x61, 0x62, 0x63, 0x20, 0x10000 }, 0 }     /* the format-12 subtable also lists BMP characters, with OTHER glyphs than format 4: format 4 rules the BMP whatever was looked up before */ };
    if (t.thorough) { fs.push_back({ font_path("Padauk.ttf"), { 0x1000, 0x103B, 0x200B }, 0 }); fs.push_back({ font_path("charis_r_gr.ttf"), { 0x61, 0x66, 0x301, 0x1D510, 0x1D513 }, 0 }); fs.push_back({ font_path("Scheherazadegr.ttf"), { 0x628, 0x633, 0x200D }, 1 }); }
    for (auto &f : fs) for (unsigned o : { 0u, 6u }) { PRoot pr{ f.f, o, f.base, f.dir };
        std::vector<uint32_t> cps = f.base; { TableSet ts; if (ts.from_file(f.f)) { MemFace mf; mf.ts = &ts; gr_face *face = mf.make(0); if (face) { const graphite2::Face *F = static_cast<const graphite2::Face*>(face);
            for (unsigned si = 0; si < F->m_numSilf; ++si) for (unsigned k = 0; k < F->m_silfs[si].m_numPseudo && k < 4; ++k) cps.push_back(F->m_silfs[si].m_pseudos[k].uid); gr_face_destroy(face); } } }
        cps.push_back(0x3000); std::vector<uint32_t> all; for (uint32_t c : cps) for (uint32_t d : { 0u, 1u, 0x100u, 0x10000u }) { uint32_t v = c + d; if (std::find(all.begin(), all.end(), v) == all.end()) all.push_back(v); }
        g_proots.push_back(pr); g_pcps.push_back(all); }
    r.ncases = 0; for (auto &c : g_pcps) r.ncases += c.size(); r.case_alarm_s = 600;
    r.describe = [](uint64_t i) { size_t ri = 0; while (i >= g_pcps[ri].size()) { i -= g_pcps[ri].size(); ++ri; } const PRoot &pr = g_proots[ri]; char b[16]; snprintf(b, sizeof b, "U+%04X", g_pcps[ri][i]); JObj o; o.kv("font", pr.font).kv("face_options", pr.opts).kv("history_character", b)
        .kv("histories", "shape [base, c1, base] in dir 0/1, or gr_face_is_char_supported(c1)").kv("probes", "each of the " + std::to_string(g_pcps[ri].size()) + " characters c2: shape [base, c2, base] x dir {0,1} and gr_face_is_char_supported(c2), each on its own face after the one history step"); return o; };
    r.body = [](uint64_t ci, ShardCtl &ctl) {
        size_t ri = 0; uint64_t i = ci; while (i >= g_pcps[ri].size()) { i -= g_pcps[ri].size(); ++ri; } const PRoot &pr = g_proots[ri]; const std::vector<uint32_t> &cps = g_pcps[ri]; uint32_t c1 = cps[i];
        TableSet ts; if (!ts.from_file(pr.font)) return; uint32_t b0 = pr.base[0];
        auto text = [&](uint32_t c) { return utf8_of({ b0, c, b0 }); };
        auto probe = [&](gr_face *face, uint32_t c2, int pk) -> std::string { if (pk == 2) return std::to_string(gr_face_is_char_supported(face, c2, 0)); std::string tx = text(c2); gr_segment *s = gr_make_seg(nullptr, face, 0, nullptr, gr_utf8, tx.c_str(), 3, pk ^ pr.dir); SegDumpOpts o; o.face = face; std::string d = dump_segment(s, o); if (s) gr_seg_destroy(s); return d; };
        // fresh references: probe on a new face
        std::vector<std::string> fresh; for (uint32_t c2 : cps) for (int pk = 0; pk < 3; ++pk) { TableSet t2 = ts; MemFace mf; mf.ts = &t2; gr_face *face = mf.make(pr.opts); if (!face) return; fresh.push_back(probe(face, c2, pk)); gr_face_destroy(face); }
        for (int hk = 0; hk < 3; ++hk) { size_t fi = 0; for (uint32_t c2 : cps) for (int pk = 0; pk < 3; ++pk, ++fi) { if ((fi & 15) == 0 && deadline_hit(ctl)) return;
            TableSet t2 = ts; MemFace mf; mf.ts = &t2; gr_face *face = mf.make(pr.opts); if (!face) return;
            if (hk == 2) { volatile int r = gr_face_is_char_supported(face, c1, 0); (void)r; } else { std::string tx = text(c1); gr_segment *s = gr_make_seg(nullptr, face, 0, nullptr, gr_utf8, tx.c_str(), 3, hk ^ pr.dir); if (s) gr_seg_destroy(s); }
            std::string got = probe(face, c2, pk); gr_face_destroy(face); ctl.counters[0] = ctl.counters[0] + 1; ctl.counters[1] = ctl.counters[1] + 2;
            if (got != fresh[fi]) { size_t p = 0; const std::string &want = fresh[fi]; while (p < got.size() && p < want.size() && got[p] == want[p]) ++p; char h[64], q[64]; snprintf(h, sizeof h, "%s U+%04X", hk == 2 ? "is_char_supported" : hk == 1 ? "shape(dir^1) base," : "shape base,", c1); snprintf(q, sizeof q, "%s U+%04X", pk == 2 ? "is_char_supported" : pk == 1 ? "shape(dir^1) base," : "shape base,", c2);
                JObj o; o.kv("font", pr.font).kv("face_options", pr.opts).kv("kind", "history_dependence").kv("history", h).kv("probe", q).kv("first_difference", want.substr(p > 80 ? p - 80 : 0, 200) + " <> " + got.substr(p > 80 ? p - 80 : 0, 200)); report_fail(ci, o); return; } } }
        ctl.cls(hash_str(pr.font) * 31 + pr.opts * 1000003 + c1);
    };
}
static void extra_p(const Runner &r, JObj &o) { o.kv("states", (unsigned long long)r.counters[0]).kv("transitions", (unsigned long long)r.counters[1]).kv("validated", (unsigned long long)r.counters[0]); }
static void extra(const Runner &r, JObj &o) { o.kv("states", (unsigned long long)r.counters[0]).kv("transitions", (unsigned long long)r.counters[1]).kv("validated", (unsigned long long)r.counters[0]).kv("bfs_roots_reaching_fixpoint", (unsigned long long)r.counters[2]); }
int main(int argc, char **argv) {
    std::vector<Sub> subs;
    { Sub s; s.name = "history_search"; s.setup = setup; s.budget_quick = 480; s.budget_thorough = 1100; s.counter_names = { "states_probed", "operations_replayed", "bfs_roots_reaching_fixpoint" }; s.extra = extra; subs.push_back(s); }
    { Sub s; s.name = "text_pair_histories"; s.setup = setup_pairs; s.budget_quick = 200; s.budget_thorough = 600; s.counter_names = { "history_probe_pairs", "operations" }; s.extra = extra_p; subs.push_back(s); }
    return check_main(argc, argv, "C08", subs);
}
