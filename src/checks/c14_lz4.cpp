// C14 (decoder component): lz4::decompress on exact-size guard-page buffers vs a reference block decoder.
#include <algorithm>
#include "common/check_main.hpp"
#include "ref/lz4_ref.hpp"
#include "inc/Decompressor.h"
#include "common/memface.hpp"
#include "common/dump.hpp"
#include "common/fonts.hpp"
using namespace vf;

static GuardBuf *g_in, *g_out;
static void init(int) { g_in = new GuardBuf(1 << 19); g_out = new GuardBuf(1 << 19); }

// one evaluation: input bytes, announced output size
static void eval(uint64_t idx, const std::vector<uint8_t> &in, size_t out_size, const ref::Lz4Result &rr, ShardCtl &c, const char *family) {
    if (out_size == 0 || out_size > 500000 || in.size() > 500000) return;
    uint8_t *pi = g_in->place(in.data(), in.size()); uint8_t *po = g_out->place(nullptr, out_size); memset(po, 0xEE, out_size);
    int r = lz4::decompress(pi, in.size(), po, out_size);
    const char *why = nullptr;
    if (r < -1 || (r >= 0 && size_t(r) > out_size)) why = "return value outside {-1} u [0,out_size]";
    else if (r >= 0 && size_t(r) == out_size) {       // the caller (Face::Table) treats exactly this as success
        if (!rr.ok) why = "accepted a block the reference decoder cannot decode";
        else if (rr.out.size() != out_size) why = "accepted a block that decodes to a different length";
        else if (memcmp(po, rr.out.data(), out_size)) why = "output differs from the reference decoder";
    }
    bool must = rr.ok && rr.end_rules && rr.out.size() == out_size && out_size > in.size() && in.size() >= 13;
    if (!why && must && r != int(out_size)) why = "rejected a valid, shrinking encoding";
    c.counters[0] = c.counters[0] + 1; if (r >= 0 && size_t(r) == out_size) c.counters[1] = c.counters[1] + 1; if (must) c.counters[2] = c.counters[2] + 1;
    c.cls((r < 0 ? 1 : size_t(r) == out_size ? 2 : 3) | (rr.ok ? 4 : 0) | (rr.end_rules ? 8 : 0) | (uint64_t(in.size() > 12) << 4) | (uint64_t(out_size > in.size()) << 5));
    if (why) { JObj o; o.kv("family", family).kv("in_hex", hex(in.data(), in.size() > 200 ? 200 : in.size())).kv("in_size", (unsigned long long)in.size()).kv("out_size", (unsigned long long)out_size).kv("ret", r).kv("kind", "lz4").kv("why", why).kv("ref_ok", rr.ok).kv("ref_len", (unsigned long long)rr.out.size()); report_fail(idx, o); }
}

static const size_t LIT[8] = { 0, 1, 7, 8, 14, 15, 16, 270 }; static const size_t MAT[6] = { 4, 5, 18, 19, 20, 274 }; static const int NOFF = 9;
static size_t off_of(int mode, size_t produced) { static const size_t fixed[6] = { 1, 2, 3, 7, 8, 9 }; if (mode < 6) return fixed[mode]; if (mode == 6) return produced; if (mode == 7) return produced + 1; return 0; }
static const int DELTA[4] = { 0, -1, 1, 8 };
static std::vector<uint8_t> build(const std::vector<int> &seqs, int fin, size_t *produced_out = nullptr) {
    std::vector<ref::Lz4Seq> s; size_t produced = 0;
    for (int q : seqs) { size_t lit = LIT[q % 8], mat = MAT[q / 8 % 6]; int om = q / 48; produced += lit; s.push_back({ lit, mat, off_of(om, produced) }); produced += mat; }
    s.push_back({ LIT[fin], 0, 0 }); if (produced_out) *produced_out = produced + LIT[fin];
    return ref::lz4_build(s);
}
static void setup_blocks2(Runner &r, const Tier &) {
    const uint64_t S = 8 * 6 * NOFF;   // 432
    r.ncases = (1 + S + S * S) * 8 * 4; r.alarm_every = 4096; r.case_alarm_s = 120; r.shard_init = init;
    auto dec = [S](uint64_t i, std::vector<int> &seqs, int &fin, int &dl) { dl = i % 4; i /= 4; fin = i % 8; i /= 8; seqs.clear(); if (i == 0) return; i -= 1; if (i < S) { seqs.push_back(int(i)); return; } i -= S; seqs.push_back(int(i / S)); seqs.push_back(int(i % S)); };
    r.describe = [dec](uint64_t i) { std::vector<int> s; int f, d; dec(i, s, f, d); std::vector<uint8_t> b = build(s, f); JObj o; o.kv("family", "blocks<=2seq").kv("in_hex", hex(b.data(), b.size() > 64 ? 64 : b.size())).kv("in_size", (unsigned long long)b.size()).kv("out_delta", DELTA[d]); return o; };
    r.body = [dec](uint64_t i, ShardCtl &c) { static std::vector<int> s; int f, d; dec(i, s, f, d); std::vector<uint8_t> b = build(s, f); ref::Lz4Result rr = ref::lz4_decode(b.data(), b.size());
        long os = long(rr.ok ? rr.out.size() : 64) + DELTA[d]; if (os <= 0) return; eval(i, b, size_t(os), rr, c, "blocks<=2seq"); };
}
// long runs: literal and match lengths around one, two and three 255-extension bytes, small offsets (overlapping copies), literal-only blocks of every length
struct LR { size_t lit1, mat1, off1, lit2, mat2, off2, fin; int dl; }; static std::vector<LR> g_lr;
static void setup_longruns(Runner &r, const Tier &) {
    g_lr.clear(); static const size_t LL[8] = { 0, 269, 270, 271, 524, 525, 526, 780 }, MM[8] = { 4, 273, 274, 275, 528, 529, 530, 784 }, OO[6] = { 1, 2, 7, 8, 16, 0 /* = produced */ };
    for (size_t n = 0; n <= 800; ++n) for (int d = 0; d < 4; ++d) g_lr.push_back({ 0, 0, 0, 0, 0, 0, n, d });                                  // literals only
    // lengths that need 257 and more extension bytes (a 16-bit length accumulator wraps at 65536)
    for (size_t n : { size_t(65534), size_t(65535), size_t(65536), size_t(65537), size_t(65551), size_t(70000), size_t(131072), size_t(131077) }) for (int d = 0; d < 4; d += 2) g_lr.push_back({ 0, 0, 0, 0, 0, 0, n, d });
    for (size_t m : { size_t(65538), size_t(65539), size_t(65540), size_t(65541), size_t(65555), size_t(70000), size_t(131076) }) for (size_t o : { size_t(1), size_t(16) }) for (size_t l : { size_t(16), size_t(65536) }) g_lr.push_back({ l, m, o, 0, 0, 0, 12, 0 });
    for (size_t l : LL) for (size_t m : MM) for (size_t o : OO) for (size_t f : { size_t(5), size_t(12), size_t(270) }) for (int d = 0; d < 4; ++d) { if (l == 0 && o != 0) continue; g_lr.push_back({ l, m, o, 0, 0, 0, f, d }); }
    for (size_t l : { size_t(1), size_t(270) }) for (size_t m : MM) for (size_t o : OO) for (size_t m2 : MM) for (size_t o2 : OO) for (int d = 0; d < 2; ++d) g_lr.push_back({ l, m, o, 0, m2, o2, 12, d * 2 });   // second sequence with zero literals
    r.ncases = g_lr.size(); r.alarm_every = 256; r.case_alarm_s = 120; r.shard_init = init;
    auto mk = [](const LR &c) { std::vector<ref::Lz4Seq> q; size_t produced = 0; if (c.mat1) { produced += c.lit1; q.push_back({ c.lit1, c.mat1, c.off1 ? c.off1 : produced }); produced += c.mat1; } if (c.mat2) { produced += c.lit2; q.push_back({ c.lit2, c.mat2, c.off2 ? c.off2 : produced }); produced += c.mat2; } q.push_back({ c.fin, 0, 0 }); return ref::lz4_build(q); };
    r.describe = [mk](uint64_t i) { const LR &c = g_lr[i]; std::vector<uint8_t> b = mk(c); JObj o; o.kv("family", "long_runs").kv("lit1", (unsigned long long)c.lit1).kv("match1", (unsigned long long)c.mat1).kv("off1", (unsigned long long)c.off1).kv("match2", (unsigned long long)c.mat2).kv("off2", (unsigned long long)c.off2).kv("final_literals", (unsigned long long)c.fin).kv("in_size", (unsigned long long)b.size()).kv("out_delta", DELTA[c.dl]); return o; };
    r.body = [mk](uint64_t i, ShardCtl &c) { const LR &x = g_lr[i]; std::vector<uint8_t> b = mk(x); ref::Lz4Result rr = ref::lz4_decode(b.data(), b.size()); long os = long(rr.ok ? rr.out.size() : 64) + DELTA[x.dl]; if (os <= 0) return; eval(i, b, size_t(os), rr, c, "long_runs"); };
}
static const int R3[48] = { 0 };
static void setup_blocks3(Runner &r, const Tier &) {
    // three sequences over reduced sets: lit {0,1,15,16} x match {4,19,20} x off {1,8,P,P+1}
    r.ncases = 48ULL * 48 * 48 * 4 * 4; r.alarm_every = 4096; r.case_alarm_s = 120; r.shard_init = init; (void)R3;
    auto code = [](int v) { static const int li[4] = { 0, 1, 5, 6 }, mi[3] = { 0, 3, 4 }, oi[4] = { 0, 4, 6, 7 }; return li[v % 4] + 8 * mi[v / 4 % 3] + 48 * oi[v / 12]; };
    auto dec = [code](uint64_t i, std::vector<int> &s, int &fin, int &dl) { static const int fi[4] = { 0, 1, 5, 6 }; dl = i % 4; i /= 4; fin = fi[i % 4]; i /= 4; s = { code(int(i / (48 * 48))), code(int(i / 48 % 48)), code(int(i % 48)) }; };
    r.describe = [dec](uint64_t i) { std::vector<int> s; int f, d; dec(i, s, f, d); std::vector<uint8_t> b = build(s, f); JObj o; o.kv("family", "blocks3seq").kv("in_hex", hex(b.data(), b.size() > 64 ? 64 : b.size())).kv("in_size", (unsigned long long)b.size()).kv("out_delta", DELTA[d]); return o; };
    r.body = [dec](uint64_t i, ShardCtl &c) { static std::vector<int> s; int f, d; dec(i, s, f, d); std::vector<uint8_t> b = build(s, f); ref::Lz4Result rr = ref::lz4_decode(b.data(), b.size());
        long os = long(rr.ok ? rr.out.size() : 64) + DELTA[d]; if (os <= 0) return; eval(i, b, size_t(os), rr, c, "blocks3seq"); };
}
// valid seed blocks for truncation / deviation
static std::vector<std::vector<uint8_t>> g_seeds;
static void make_seeds() {
    g_seeds.clear(); const uint64_t S = 432;
    static const int lits[4] = { 0, 1, 5, 6 }, mats[2] = { 0, 3 }, offs[2] = { 0, 6 };
    for (int a = -1; a < 16; ++a) for (int b2 = -1; b2 < 16; ++b2) for (int fin : { 3, 5, 6 }) {
        std::vector<int> s; auto code = [&](int v) { return lits[v % 4] + 8 * mats[v / 4 % 2] + 48 * offs[v / 8]; };
        if (a >= 0) s.push_back(code(a)); if (b2 >= 0) { if (a < 0) continue; s.push_back(code(b2)); }
        std::vector<uint8_t> blk = build(s, fin); ref::Lz4Result rr = ref::lz4_decode(blk.data(), blk.size());
        if (rr.ok && rr.end_rules && rr.out.size() > blk.size() && blk.size() >= 13 && blk.size() <= 48) g_seeds.push_back(blk); }
    (void)S;
}
static void eval_rejected_at_partial_sizes(uint64_t idx, const std::vector<uint8_t> &in, const ref::Lz4Result &rr, size_t already, ShardCtl &c, const char *family);
static void setup_trunc(Runner &r, const Tier &) {
    make_seeds(); r.ncases = g_seeds.size() * 49; r.alarm_every = 256; r.shard_init = init;
    r.describe = [](uint64_t i) { const auto &b = g_seeds[i / 49]; size_t n = i % 49; JObj o; o.kv("family", "truncation").kv("seed_hex", hex(b.data(), b.size())).kv("prefix_len", (unsigned long long)(n > b.size() ? b.size() : n)); return o; };
    r.body = [](uint64_t i, ShardCtl &c) { const auto &b = g_seeds[i / 49]; size_t n = i % 49; if (n > b.size()) return; std::vector<uint8_t> in(b.begin(), b.begin() + n); ref::Lz4Result full = ref::lz4_decode(b.data(), b.size()), rr = ref::lz4_decode(in.data(), in.size());
        for (int d : { 0, 1, -1 }) { long os = long(full.out.size()) + d; if (os > 0 && !in.empty()) eval(i, in, size_t(os), rr, c, "truncation"); } eval_rejected_at_partial_sizes(i, in, rr, full.out.size(), c, "truncation"); };
}
// Output sizes at which a careless decoder could stop: after the literal run and after the match of every sequence of a (possibly invalid) block.
// A block the reference rejects must be rejected whatever size is announced; these are the sizes at which "the output is already full" hides the defect.
static std::vector<size_t> partial_sizes(const std::vector<uint8_t> &in) {
    std::vector<size_t> v; size_t i = 0, n = in.size(), L = 0;
    while (i < n && v.size() < 24) {
        uint8_t tok = in[i++]; size_t ll = tok >> 4; if (ll == 15) { uint8_t b; do { if (i >= n) return v; b = in[i++]; ll += b; } while (b == 255); }
        if (i + ll > n) { if (L + (n - i)) v.push_back(L + (n - i)); return v; }
        L += ll; i += ll; if (L) v.push_back(L);
        if (i + 2 > n) return v; i += 2;
        size_t ml = tok & 15; if (ml == 15) { uint8_t b; do { if (i >= n) { v.push_back(L + ml + 4); return v; } b = in[i++]; ml += b; } while (b == 255); }
        L += ml + 4; v.push_back(L);
    }
    return v;
}
static void eval_rejected_at_partial_sizes(uint64_t idx, const std::vector<uint8_t> &in, const ref::Lz4Result &rr, size_t already, ShardCtl &c, const char *family) {
    if (rr.ok || in.empty()) return;
    std::vector<size_t> ps = partial_sizes(in); std::sort(ps.begin(), ps.end()); ps.erase(std::unique(ps.begin(), ps.end()), ps.end());
    for (size_t s : ps) if (s != already) eval(idx, in, s, rr, c, family);
}
// valid blocks with 1..3 bytes appended (every value of the first appended byte, boundary values for the others): the tail is an incomplete sequence
static void setup_appended(Runner &r, const Tier &) {
    make_seeds(); r.ncases = g_seeds.size() * 3; r.alarm_every = 64; r.case_alarm_s = 120; r.shard_init = init;
    r.describe = [](uint64_t i) { const auto &b = g_seeds[i / 3]; JObj o; o.kv("family", "appended_bytes").kv("seed_hex", hex(b.data(), b.size())).kv("appended", (unsigned long long)(i % 3 + 1)); return o; };
    r.body = [](uint64_t i, ShardCtl &c) { const auto &b = g_seeds[i / 3]; int k = int(i % 3) + 1; ref::Lz4Result full = ref::lz4_decode(b.data(), b.size()); static const uint8_t B[6] = { 0x00, 0x01, 0x04, 0x10, 0xF0, 0xFF };
        std::vector<uint8_t> in = b; in.resize(b.size() + k); int combos = k == 1 ? 1 : k == 2 ? 6 : 36;
        for (int v0 = 0; v0 < 256; ++v0) for (int w = 0; w < combos; ++w) { in[b.size()] = uint8_t(v0); if (k > 1) in[b.size() + 1] = B[w % 6]; if (k > 2) in[b.size() + 2] = B[w / 6];
            ref::Lz4Result rr = ref::lz4_decode(in.data(), in.size()); if (full.out.size()) eval(i, in, full.out.size(), rr, c, "appended_bytes"); if (rr.ok && rr.out.size() && rr.out.size() != full.out.size()) eval(i, in, rr.out.size(), rr, c, "appended_bytes");
            eval_rejected_at_partial_sizes(i, in, rr, full.out.size(), c, "appended_bytes"); } };
}
static bool g_thor;
static void setup_dev(Runner &r, const Tier &t) {
    make_seeds(); g_thor = t.thorough; r.ncases = g_seeds.size() * 48; r.alarm_every = 64; r.case_alarm_s = 120; r.shard_init = init;
    r.describe = [](uint64_t i) { const auto &b = g_seeds[i / 48]; JObj o; o.kv("family", "byte_deviation").kv("seed_hex", hex(b.data(), b.size())).kv("position", (unsigned long long)(i % 48)).kv("values", g_thor ? "all 255 x (token byte: all 255)" : "all 255 other values"); return o; };
    r.body = [](uint64_t i, ShardCtl &c) { const auto &b = g_seeds[i / 48]; size_t pos = i % 48; if (pos >= b.size()) return; ref::Lz4Result full = ref::lz4_decode(b.data(), b.size());
        std::vector<uint8_t> in = b;
        for (int v = 0; v < 256; ++v) { if (v == b[pos]) continue; in[pos] = uint8_t(v); ref::Lz4Result rr = ref::lz4_decode(in.data(), in.size()); eval(i, in, full.out.size(), rr, c, "byte_deviation"); eval_rejected_at_partial_sizes(i, in, rr, full.out.size(), c, "byte_deviation"); if (rr.ok && rr.out.size() != full.out.size() && rr.out.size() > 0) eval(i, in, rr.out.size(), rr, c, "byte_deviation");
            if (g_thor && pos != 0) { uint8_t t0 = in[0]; for (int w = 0; w < 256; w += 1) { in[0] = uint8_t(w); ref::Lz4Result r2 = ref::lz4_decode(in.data(), in.size()); eval(i, in, full.out.size(), r2, c, "byte_deviation2"); } in[0] = t0; } }
    };
}
static void setup_short(Runner &r, const Tier &t) {
    g_thor = t.thorough; r.ncases = 1024; r.alarm_every = 1; r.case_alarm_s = 300; r.shard_init = init;
    r.describe = [](uint64_t i) { JObj o; o.kv("family", "all strings of length 13 (thorough: and 14) over {00,10,1F,F0,41}^..., first five symbols index").kv("prefix_index", (unsigned long long)i); return o; };
    r.body = [](uint64_t i, ShardCtl &c) { static const uint8_t A[4] = { 0x00, 0x10, 0x1F, 0xF0 }; int L = 13;
        for (int len = L; len <= (g_thor ? 14 : 13); ++len) { std::vector<uint8_t> in(len); uint64_t pre = i; for (int k = 0; k < 5; ++k) { in[k] = A[pre & 3]; pre >>= 2; }
            uint64_t n = 1ULL << (2 * (len - 5)); for (uint64_t v = 0; v < n; ++v) { uint64_t x = v; for (int k = 5; k < len; ++k) { in[k] = A[x & 3]; x >>= 2; } ref::Lz4Result rr = ref::lz4_decode(in.data(), in.size());
                eval(i, in, rr.ok && rr.out.size() ? rr.out.size() : 40, rr, c, "short13"); eval_rejected_at_partial_sizes(i, in, rr, 40, c, "short13"); } } };
}

// ---- table wrapper: [version u32][scheme:5 | announced size:27][block] of the compressed Silf / Glat tables of the compressed seed fonts:
// every scheme value x a boundary set of announced sizes, loaded through gr_make_face_with_ops (library allocations are ASan-checked)
struct WCase { int font; uint32_t tag; uint32_t scheme, size; }; static std::vector<WCase> g_wc; static std::vector<std::string> g_wfonts; static std::vector<std::string> g_wplain;
static void setup_wrapper(Runner &r, const Tier &t) {
    g_wc.clear(); g_wfonts = { gen_dir() + "/s_full_z.ttf", gen_dir() + "/s_full_zs.ttf", gen_dir() + "/s_full_zg.ttf" }; if (t.thorough) g_wfonts.push_back(font_path("Awami_compressed_test.ttf"));
    g_wplain.clear(); { TableSet ts; MemFace mf; mf.ts = &ts; if (ts.from_file(gen_dir() + "/s_full.ttf")) { gr_face *f = mf.make(0); g_wplain.push_back(f ? dump_face(f) : ""); if (f) gr_face_destroy(f); } }
    for (size_t fi = 0; fi < g_wfonts.size(); ++fi) { TableSet ts; if (!ts.from_file(g_wfonts[fi])) continue;
        for (uint32_t tag : { mktag("Silf"), mktag("Glat") }) { auto it = ts.t.find(tag); if (it == ts.t.end() || it->second.size() < 9) continue; uint32_t w = be32(&it->second[4]); if ((w >> 27) == 0) continue; uint32_t full = w & 0x07FFFFFF, clen = uint32_t(it->second.size());
            std::set<uint32_t> sizes = { 0, 1, 2, 3, 4, 5, 7, 8, 9, 12, 13, 16, clen - 9, clen - 8, clen - 7, clen - 1, clen, clen + 1, full / 2, full - 4, full - 1, full, full + 1, full + 4, 2 * full, 0x10000, 0xFFFFF, 0x1000000, 0x3FFFFFF, 0x4000000, 0x7FFFFFE, 0x7FFFFFF };
            for (uint32_t sc = 0; sc < 32; ++sc) for (uint32_t sz : sizes) g_wc.push_back({ int(fi), tag, sc, sz & 0x07FFFFFF }); } }
    r.ncases = g_wc.size(); r.case_alarm_s = 120;
    r.describe = [](uint64_t i) { const WCase &c = g_wc[i]; JObj o; o.kv("font", g_wfonts[c.font]).kv("table", tagstr(c.tag)).kv("scheme", c.scheme).kv("announced_size", c.size); return o; };
    r.body = [](uint64_t i, ShardCtl &ctl) { const WCase &c = g_wc[i]; TableSet ts; if (!ts.from_file(g_wfonts[c.font])) return; Bytes &b = ts.t[c.tag]; uint32_t orig = be32(&b[4]); uint32_t w = (c.scheme << 27) | c.size; b[4] = uint8_t(w >> 24); b[5] = uint8_t(w >> 16); b[6] = uint8_t(w >> 8); b[7] = uint8_t(w);
        for (unsigned opts : { 0u, 7u }) { MemFace mf; mf.ts = &ts; gr_face *f = mf.make(opts); ctl.counters[0] = ctl.counters[0] + 1; const char *why = nullptr;
            if (f) { ctl.counters[1] = ctl.counters[1] + 1; std::string d = dump_face(f); gr_segment *sg = gr_make_seg(nullptr, f, 0, nullptr, gr_utf8, "ab c", 4, 0); if (sg) gr_seg_destroy(sg);
                if (w == orig && c.font < 3 && !g_wplain.empty() && d != g_wplain[0]) why = "unmodified compressed font reports a different face than the uncompressed one";
                // same scheme, another announced size: the block still decodes to the original size, so the table cannot hold "exactly the bytes a reference decoder produces" -> the load must fail
                if (!why && (w >> 27) == (orig >> 27) && w != orig) why = "compressed table accepted although the announced size differs from the size its block decodes to";
                gr_face_destroy(f); }
            else if (w == orig) why = "unmodified compressed font rejected";
            if (!why && !mf.outstanding.empty()) why = "borrowed tables outstanding after the face is gone";
            if (why) { JObj o; o.kv("family", "table_wrapper").kv("font", g_wfonts[c.font]).kv("table", tagstr(c.tag)).kv("scheme", c.scheme).kv("announced_size", c.size).kv("options", opts).kv("kind", why); report_fail(i, o); mf.drop_outstanding(); return; } }
        ctl.cls(uint64_t(c.scheme) * 64 + (c.size < 16 ? c.size : 16 + (c.size % 7))); };
}
int main(int argc, char **argv) {
    std::vector<Sub> subs; std::vector<std::string> cn = { "decodes", "accepted", "must_accept" };
    { Sub s; s.name = "blocks2"; s.setup = setup_blocks2; s.budget_quick = 100; s.budget_thorough = 600; s.counter_names = cn; subs.push_back(s); }
    { Sub s; s.name = "long_runs"; s.setup = setup_longruns; s.budget_quick = 60; s.budget_thorough = 120; s.counter_names = cn; subs.push_back(s); }
    { Sub s; s.name = "blocks3"; s.setup = setup_blocks3; s.budget_quick = 60; s.budget_thorough = 600; s.counter_names = cn; subs.push_back(s); }
    { Sub s; s.name = "truncation"; s.setup = setup_trunc; s.counter_names = cn; subs.push_back(s); }
    { Sub s; s.name = "appended_bytes"; s.setup = setup_appended; s.budget_quick = 60; s.budget_thorough = 300; s.counter_names = cn; subs.push_back(s); }
    { Sub s; s.name = "byte_deviation"; s.setup = setup_dev; s.budget_quick = 60; s.budget_thorough = 900; s.counter_names = cn; subs.push_back(s); }
    { Sub s; s.name = "table_wrapper"; s.setup = setup_wrapper; s.budget_quick = 60; s.budget_thorough = 300; s.counter_names = { "loads", "accepted" }; subs.push_back(s); }
    { Sub s; s.name = "short13"; s.setup = setup_short; s.budget_quick = 100; s.budget_thorough = 900; s.counter_names = cn; subs.push_back(s); }
    return check_main(argc, argv, "C14", subs);
}
