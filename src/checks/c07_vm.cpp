// C07 (component part): every straight-line program over the arithmetic/logic opcodes that the REAL loader
// accepts is run on the real Machine and compared with the reference evaluator.  Built twice (direct / call
// interpreter); a commutative digest of all results lets the driver compare the two builds with each other.
#include "common/check_main.hpp"
#include "common/fonts.hpp"
#include "ref/vm_ref.hpp"
#include "inc/Code.h"
#include "inc/Rule.h"
#include "inc/Silf.h"
#include "inc/Face.h"
#include "inc/Segment.h"
#include "inc/Slot.h"
using namespace vf;
using namespace graphite2;
using namespace graphite2::vm;

static const int32_t VALS[12] = { 0, 1, -1, 2, 127, 128, 255, 0x7FFF, 0x8000, 0xFFFF, INT32_MAX, INT32_MIN };
static const uint8_t OPS[25] = { ref::R_ADD, ref::R_SUB, ref::R_MUL, ref::R_DIV, ref::R_MIN, ref::R_MAX, ref::R_NEG, ref::R_TRUNC8, ref::R_TRUNC16, ref::R_COND,
    ref::R_AND, ref::R_OR, ref::R_NOT, ref::R_EQUAL, ref::R_NOT_EQ, ref::R_LESS, ref::R_GTR, ref::R_LESS_EQ, ref::R_GTR_EQ, ref::R_BITOR, ref::R_BITAND, ref::R_BITNOT,
    ref::R_BITSET, ref::R_BITSET, ref::R_NOP };
static const int NATOM = 37;
static const uint8_t TERM[3] = { ref::R_POP_RET, ref::R_RET_ZERO, ref::R_RET_TRUE };

static void emit_push(std::vector<uint8_t> &b, int32_t v) {
    if (v >= -128 && v <= 127) { b.push_back(ref::R_PUSH_BYTE); b.push_back(uint8_t(v)); }
    else if (v >= 0 && v <= 255) { b.push_back(ref::R_PUSH_BYTEU); b.push_back(uint8_t(v)); }
    else if (v >= -32768 && v <= 32767) { b.push_back(ref::R_PUSH_SHORT); b.push_back(uint8_t(v >> 8)); b.push_back(uint8_t(v)); }
    else if (v >= 0 && v <= 65535) { b.push_back(ref::R_PUSH_SHORTU); b.push_back(uint8_t(v >> 8)); b.push_back(uint8_t(v)); }
    else { b.push_back(ref::R_PUSH_LONG); b.push_back(uint8_t(uint32_t(v) >> 24)); b.push_back(uint8_t(v >> 16)); b.push_back(uint8_t(v >> 8)); b.push_back(uint8_t(v)); }
}
static void emit_atom(std::vector<uint8_t> &b, int a) {
    if (a < 12) { emit_push(b, VALS[a]); return; }
    int o = a - 12; b.push_back(OPS[o]);
    if (OPS[o] == ref::R_BITSET) { if (o == 22) { b.push_back(0x00); b.push_back(0xF0); b.push_back(0x0A); b.push_back(0x05); } else { b.push_back(0xFF); b.push_back(0xFF); b.push_back(0x80); b.push_back(0x01); } }
}
static int g_maxlen = 4;
static uint64_t ipow(uint64_t b, int e) { uint64_t r = 1; while (e--) r *= b; return r; }
static void prog_of(uint64_t idx, std::vector<uint8_t> &b) {
    b.clear(); int term = int(idx % 3); idx /= 3;
    int L = 0; for (; L <= g_maxlen; ++L) { uint64_t n = ipow(NATOM, L); if (idx < n) break; idx -= n; }
    int atoms[8]; for (int k = L - 1; k >= 0; --k) { atoms[k] = int(idx % NATOM); idx /= NATOM; }
    for (int k = 0; k < L; ++k) emit_atom(b, atoms[k]);
    b.push_back(TERM[term]);
}

struct World { TableSet ts; MemFace mf; gr_face *face = nullptr; Segment *seg = nullptr; Slot slot; };
static World *g_w;
static void world_init(int) {
    g_w = new World; g_w->ts.from_file(font_path("small.ttf")); g_w->mf.ts = &g_w->ts; g_w->face = g_w->mf.make(0);
    if (!g_w->face) { fprintf(stderr, "cannot load small.ttf\n"); _exit(4); }
    g_w->seg = new Segment(1, g_w->face, 0, 0);
}

// run one program: returns false if the loader rejected it
static bool run_prog(uint64_t idx, const std::vector<uint8_t> &b, ShardCtl &c, const char *family, size_t maxdepth = 0) {
    const Face &face = *g_w->face; const Silf &silf = *face.chooseSilf(0);
    // exact-size heap copy so that ASan sees any decoder over-read of the bytecode
    uint8_t *bc = (uint8_t*)malloc(b.size()); memcpy(bc, b.data(), b.size());
    ref::VmResult want = ref::vm_eval(b.data(), b.size());
    bool accepted;
    {
        Machine::Code prog(true, bc, bc + b.size(), 0, 0, silf, face, PASS_TYPE_UNKNOWN);
        accepted = bool(prog);
        if (accepted) {
            SlotMap smap(*g_w->seg, 0, 0); Machine m(smap); smap.pushSlot(&g_w->slot);
            slotref *map = smap.begin();
            int32 ret = prog.run(m, map); Machine::status_t st = m.status();
            const char *why = nullptr;
            switch (want.st) {
            case ref::VmResult::OK:
                if (st == Machine::stack_overflow && maxdepth >= Machine::STACK_MAX) break;      // deeper than the machine's stack: refusing at run time is the documented resource limit
                if (want.leftover == 0) { if (st != Machine::finished) why = "status not finished"; else if (ret != want.value) why = "wrong value"; }
                else if (!((st == Machine::stack_not_empty && ret == 0) || (st == Machine::finished && ret == want.value))) why = "leftover stack: neither stack_not_empty/0 nor finished/value";
                break;
            case ref::VmResult::DIED: if (st == Machine::finished) why = "division by zero or INT_MIN/-1 did not fail"; break;
            case ref::VmResult::UNDERFLOW: why = "loader accepted a program whose stack underflows"; break;
            default: why = "loader accepted a program the reference cannot evaluate"; break;
            }
            c.counters[1] = c.counters[1] + 1;
            uint64_t h = fnv1a(&ret, sizeof ret, uint64_t(st) * 1315423911u + 7); h = fnv1a(b.data(), b.size(), h);
            c.counters[5] = c.counters[5] + h;                      // commutative digest (cross-build comparison)
            c.cls((uint64_t(uint32_t(ret)) << 3) | uint64_t(st));
            if (why) { JObj o; o.kv("family", family).kv("bytecode", hex(b.data(), b.size())).kv("kind", "vm_result").kv("why", why).kv("got", (long long)ret).kv("status", int(st)).kv("want", (long long)want.value).kv("want_state", int(want.st)); report_fail(idx, o); }
        } else {
            c.counters[2] = c.counters[2] + 1;
            // rejecting is always allowed by C07; counted so that a vacuous run is visible
            if (want.st == ref::VmResult::OK || want.st == ref::VmResult::DIED) c.counters[3] = c.counters[3] + 1;
        }
    }
    free(bc);
    c.counters[0] = c.counters[0] + 1;
    return accepted;
}

static void setup_programs(Runner &r, const Tier &t) {
    g_maxlen = t.thorough ? 5 : 4;
    r.ncases = 0; for (int L = 0; L <= g_maxlen; ++L) r.ncases += ipow(NATOM, L); r.ncases *= 3;
    r.alarm_every = 1 << 14; r.case_alarm_s = 60; r.shard_init = world_init;
    r.describe = [](uint64_t i) { std::vector<uint8_t> b; prog_of(i, b); JObj o; o.kv("family", "straight_line").kv("bytecode", hex(b.data(), b.size())); return o; };
    r.body = [](uint64_t i, ShardCtl &c) { static std::vector<uint8_t> b; prog_of(i, b); run_prog(i, b, c, "straight_line"); };
}

// operand decoding: every operand value of the short pushes, boundary-structured long pushes
static std::vector<uint32_t> g_longs;
static void setup_operands(Runner &r, const Tier &) {
    g_longs.clear();
    static const uint16_t lo[] = { 0, 1, 0x7F, 0x80, 0xFF, 0x100, 0x7FFF, 0x8000, 0xFFFE, 0xFFFF };
    for (uint32_t hi = 0; hi < 65536; ++hi) { g_longs.push_back(hi << 16); g_longs.push_back((hi << 16) | 0xFFFF); }
    for (uint16_t a : lo) for (uint16_t b : lo) g_longs.push_back((uint32_t(a) << 16) | b);
    r.ncases = 256 + 256 + 65536 + 65536 + g_longs.size(); r.alarm_every = 1 << 12; r.shard_init = world_init;
    auto mk = [](uint64_t i, std::vector<uint8_t> &b) {
        b.clear();
        if (i < 256) { b = { ref::R_PUSH_BYTE, uint8_t(i) }; } else if ((i -= 256) < 256) { b = { ref::R_PUSH_BYTEU, uint8_t(i) }; }
        else if ((i -= 256) < 65536) { b = { ref::R_PUSH_SHORT, uint8_t(i >> 8), uint8_t(i) }; } else if ((i -= 65536) < 65536) { b = { ref::R_PUSH_SHORTU, uint8_t(i >> 8), uint8_t(i) }; }
        else { i -= 65536; uint32_t v = g_longs[i]; b = { ref::R_PUSH_LONG, uint8_t(v >> 24), uint8_t(v >> 16), uint8_t(v >> 8), uint8_t(v) }; }
        b.push_back(ref::R_POP_RET);
    };
    r.describe = [mk](uint64_t i) { std::vector<uint8_t> b; mk(i, b); JObj o; o.kv("family", "operand_decoding").kv("bytecode", hex(b.data(), b.size())); return o; };
    r.body = [mk](uint64_t i, ShardCtl &c) { static std::vector<uint8_t> b; mk(i, b); run_prog(i, b, c, "operand_decoding"); };
}

// deep stacks: D pushes followed by D-1 binary operators, D = 1 .. 1100 (around the machine's 1024-entry stack), three operators, action and constraint form
static void setup_deep(Runner &r, const Tier &) {
    r.ncases = 1100 * 3; r.alarm_every = 64; r.case_alarm_s = 60; r.shard_init = world_init;
    auto mk = [](uint64_t i, std::vector<uint8_t> &b) { b.clear(); size_t D = size_t(i / 3) + 1; int op = int(i % 3); for (size_t k = 0; k < D; ++k) { b.push_back(ref::R_PUSH_BYTE); b.push_back(uint8_t(op == 2 ? (k % 2) : 1)); } static const uint8_t O[3] = { ref::R_ADD, ref::R_SUB, ref::R_OR }; for (size_t k = 1; k < D; ++k) b.push_back(O[op]); b.push_back(ref::R_POP_RET); };
    r.describe = [](uint64_t i) { JObj o; o.kv("family", "deep_stack").kv("pushes", (unsigned long long)(i / 3 + 1)).kv("operator", i % 3 == 0 ? "ADD" : i % 3 == 1 ? "SUB" : "OR"); return o; };
    r.body = [mk](uint64_t i, ShardCtl &c) { static std::vector<uint8_t> b; mk(i, b); run_prog(i, b, c, "deep_stack", size_t(i / 3) + 1); };
}

static void extra(const Runner &r, JObj &o) { o.kv("digest", (unsigned long long)r.counters[5]); }

int main(int argc, char **argv) {
    std::vector<Sub> subs;
    { Sub s; s.name = "operands"; s.setup = setup_operands; s.counter_names = { "programs", "accepted", "rejected", "rejected_although_reference_evaluates" }; s.extra = extra; subs.push_back(s); }
    { Sub s; s.name = "deep_stack"; s.setup = setup_deep; s.counter_names = { "programs", "accepted", "rejected", "rejected_although_reference_evaluates" }; s.extra = extra; subs.push_back(s); }
    { Sub s; s.name = "programs"; s.setup = setup_programs; s.budget_quick = 100; s.budget_thorough = 900; s.counter_names = { "programs", "accepted", "rejected", "rejected_although_reference_evaluates" }; s.extra = extra; subs.push_back(s); }
    return check_main(argc, argv, "C07", subs);
}
