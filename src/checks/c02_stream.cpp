// C02/C03/C04/C05 on enumerated fonts: every font record on stdin (produced by gen/progenum.py or by the C01 mutators)
// that the REAL loader accepts is shaped with every short text x dir flags; oracles: sanitizers, loop-bound hook,
// 64x slot cap, structural invariants (check_segment), all queries, allocation balance, borrow discipline.
#include "common/stream.hpp"
#include "common/segcheck.hpp"
#include "common/fonts.hpp"
using namespace vf;

static bool g_thorough = false;
static int g_gidclause = 1;
struct Text { std::vector<uint32_t> usv; std::vector<uint8_t> u8; std::vector<ref::Decoded> dec; };
static std::vector<Text> g_texts;
static const StreamCase *g_cur = nullptr;
static double g_max_ratio = 0;     // max iterations/bound seen (per child; merged through counters as ppm)
static ShardCtl *g_cctl = nullptr;

extern "C" void graphite2_verif_pass_loop(const void *, unsigned long iterations, unsigned maxloop, unsigned long slots, long budget, int at_exit) {
    double bound = double(maxloop) * (double(slots) + (budget > 0 ? budget : 0) + 2);
    double ratio = bound > 0 ? iterations / bound : 0;
    if (g_cctl) { uint64_t ppm = uint64_t(ratio * 1e6); if (ppm > g_cctl->counters[10]) g_cctl->counters[10] = ppm;
        double tight = double(maxloop) * (double(slots) + 2); uint64_t p2 = tight > 0 ? uint64_t(iterations / tight * 1e6) : 0; if (p2 > g_cctl->counters[11]) g_cctl->counters[11] = p2; }
    if (!at_exit) {   // bound exceeded while still looping: decided by the counter, not by a wall clock
        if (g_cur) { JObj o; o.kv("prop", "C02").kv("kind", "loop_bound_exceeded").kv("iterations", (unsigned long long)iterations).kv("maxloop", maxloop).kv("slots_at_start", (unsigned long long)slots).kv("insert_budget", (long long)budget); report_stream_fail(*g_cur, o); }
        fflush(stdout); _exit(77);
    }
}

static std::vector<int> g_dirs; static bool g_small_texts = false, g_long_texts = false;
static void build_texts() {
    static const uint32_t alpha[3] = { 0x61, 0x62, 0xE000 };
    int maxlen = g_long_texts ? 4 : 3;
    for (int L = 0; L <= maxlen; ++L) { int n = 1; for (int k = 0; k < L; ++k) n *= 3;
        for (int v = 0; v < n; ++v) { Text t; int x = v; bool has_unmapped = false; for (int k = 0; k < L; ++k) { t.usv.push_back(alpha[x % 3]); if (x % 3 == 2) has_unmapped = true; x /= 3; }
            if (!g_thorough && L == 3 && has_unmapped && t.usv[1] != 0xE000) continue;
            if (g_small_texts && L == 3 && (has_unmapped || t.usv[0] != t.usv[2])) continue;   // constraint programs only decide WHETHER a rule fires: fewer texts suffice     // quick: length-3 strings keep the unmapped character only in the middle
            g_texts.push_back(t); } }
    for (auto l : { std::vector<uint32_t>{ 0x10000 }, std::vector<uint32_t>{ 0x61, 0x10000, 0x62 }, std::vector<uint32_t>{ 0x63, 0x64 }, std::vector<uint32_t>{ 0x61, 0x301, 0x300 }, std::vector<uint32_t>{ 0x62, 0x62, 0x62, 0x62, 0x62, 0x62 }, std::vector<uint32_t>{ 0x301, 0x61 }, std::vector<uint32_t>{ 0x301, 0x301, 0x61, 0x62, 0x301 } }) { Text t; t.usv = l; g_texts.push_back(t); }
    for (auto &t : g_texts) { for (uint32_t c : t.usv) { size_t off = t.u8.size(); ref::enc8(c, t.u8); t.dec.push_back({ c, off, unsigned(t.u8.size() - off), true, false, false }); } t.u8.push_back(0); }
    if (g_small_texts) g_dirs = g_thorough ? std::vector<int>{ 0, 1, 3 } : std::vector<int>{ 0, 1 }; else if (g_thorough) g_dirs = { 0, 1, 2, 3, 4, 5, 6, 7 }; else g_dirs = { 0, 1, 3, 6 };
}

static void body(const StreamCase &c, ShardCtl &ctl) {
    g_cur = &c; g_cctl = &ctl;
    size_t bal0 = allocated_bytes();
    {
        MemFace mf; mf.ts = &c.ts; mf.log_get.reserve(0);
        // the log vector would disturb the allocation balance: keep it empty
        struct NoLog { MemFace &m; ~NoLog() { std::vector<uint32_t>().swap(m.log_get); } } nolog{mf};
        gr_face *face = mf.make(0);
        ctl.counters[0] = ctl.counters[0] + 1;
        if (!face) {
            ctl.counters[2] = ctl.counters[2] + 1;
            if (!mf.outstanding.empty() || mf.bad_release) { JObj o; o.kv("prop", "C16").kv("kind", "tables_outstanding_after_failed_load").kv("outstanding", (unsigned long long)mf.outstanding.size()); report_stream_fail(c, o); mf.drop_outstanding(); }
        } else {
            ctl.counters[1] = ctl.counters[1] + 1;
            const int ng = gr_face_n_glyphs(face);
            gr_font *font = gr_make_font(12.0f, face);
            unsigned nuser = 4;
            for (size_t ti = 0; ti < g_texts.size(); ++ti) {
                const Text &t = g_texts[ti];
                for (int dir : g_dirs) for (int wf = 0; wf < (dir < (g_thorough ? 2 : 1) ? 2 : 1); ++wf) {
                    gr_segment *s = gr_make_seg(wf ? font : nullptr, face, 0, nullptr, gr_utf8, t.u8.data(), t.usv.size(), dir);
                    ctl.counters[3] = ctl.counters[3] + 1;
                    if (!s) { ctl.counters[4] = ctl.counters[4] + 1; continue; }
                    unsigned n = gr_seg_n_slots(s);
                    if (n > 64 * (t.usv.empty() ? 1 : t.usv.size())) { JObj o; o.kv("prop", "C02").kv("kind", "slot_cap_exceeded").kv("n_slots", n).kv("nchars", (unsigned long long)t.usv.size()).kv("text", hex(t.u8.data(), t.u8.size())).kv("dir", dir); report_stream_fail(c, o, "slotcap"); }
                    SegExpect e; e.nchars = t.usv.size(); e.chars = &t.dec; e.strict_chars = true; e.n_glyphs = g_gidclause ? ng : -1;
                    std::vector<SegViolation> v; check_segment(s, e, v);
                    for (auto &x : v) { JObj o; o.kv("prop", x.prop).kv("kind", "structural_invariant").kv("what", x.what).kv("text", hex(t.u8.data(), t.u8.size())).kv("dir", dir).kv("with_font", wf); report_stream_fail(c, o, x.prop + ":" + x.what); }
                    touch_all_queries(s, face, wf ? font : nullptr, nuser);
                    // shape statistics (non-vacuity) and distinct shapes
                    if (!v.empty()) ctl.counters[9] = ctl.counters[9] + 1;
                    if (wf == 0) {
                        SegDumpOpts o; o.positions = false; o.attrs = false; o.bases = false; std::string d = dump_segment(s, o); ctl.cls(hash_str(d));
                        bool att = false; for (const gr_slot *q = gr_seg_first_slot(s); q; q = gr_slot_next_in_segment(q)) if (gr_slot_attached_to(q)) { att = true; break; }
                        if (att) ctl.counters[5] = ctl.counters[5] + 1;
                        if (n < t.usv.size()) ctl.counters[6] = ctl.counters[6] + 1;
                        if (n > t.usv.size()) ctl.counters[7] = ctl.counters[7] + 1;
                    }
                    gr_seg_destroy(s);
                }
            }
            gr_font_destroy(font);
            gr_face_destroy(face);
            if (!mf.outstanding.empty() || mf.bad_release) { JObj o; o.kv("prop", "C16").kv("kind", "tables_outstanding_after_destroy").kv("outstanding", (unsigned long long)mf.outstanding.size()).kv("bad_release", (unsigned long long)mf.bad_release); report_stream_fail(c, o); mf.drop_outstanding(); }
        }
    }
    size_t bal1 = allocated_bytes();
    if (bal1 != bal0) { JObj o; o.kv("prop", "C02").kv("kind", "allocation_imbalance").kv("leaked_bytes", (long long)(bal1 - bal0)); report_stream_fail(c, o); }
    g_cur = nullptr;
}

int main(int argc, char **argv) {
    g_thorough = !strcmp(argval(argc, argv, "--tier", "quick"), "thorough");
    g_gidclause = atoi(argval(argc, argv, "--gid-clause", "1"));
    g_small_texts = !strcmp(argval(argc, argv, "--texts", "full"), "small"); g_long_texts = !strcmp(argval(argc, argv, "--texts", "full"), "long");
    build_texts();
    return stream_main(argc, argv, "c02_stream", body, nullptr,
        { "fonts", "accepted", "rejected", "segments", "null_segments", "segs_with_attachment", "segs_shorter_than_text", "segs_longer_than_text", "unused8", "segs_violating", "max_loop_ratio_ppm", "max_loop_ratio_tight_ppm" });
}
