// debugging tool: fontinfo <font.ttf> [opts] [text ...] : face dump and segment dumps (not a check)
#include "common/corpus.hpp"
#include "common/segcheck.hpp"
using namespace vf;
int main(int argc, char **argv) {
    if (argc < 2) return 2;
    TableSet ts; if (!ts.from_file(argv[1])) { printf("cannot read\n"); return 2; }
    MemFace mf; mf.ts = &ts; unsigned opts = argc > 2 ? atoi(argv[2]) : 0;
    gr_face *f = mf.make(opts);
    if (!f) { printf("face NULL; get=%lu rel=%lu outstanding=%zu\n", mf.n_get, mf.n_release, mf.outstanding.size()); return 1; }
    printf("%s", dump_face(f).c_str());
    for (int i = 3; i < argc; ++i) for (int dir = 0; dir < 2; ++dir) {
        std::string t = argv[i]; gr_segment *s = gr_make_seg(nullptr, f, 0, nullptr, gr_utf8, t.c_str(), utf8_count(t), dir);
        printf("--- '%s' dir %d\n%s", argv[i], dir, dump_segment(s).c_str());
        std::vector<SegViolation> v; SegExpect e; e.nchars = utf8_count(t); e.n_glyphs = gr_face_n_glyphs(f); check_segment(s, e, v);
        for (auto &x : v) printf("!! %s %s\n", x.prop.c_str(), x.what.c_str());
        if (s) gr_seg_destroy(s);
    }
    gr_face_destroy(f);
    printf("get=%lu rel=%lu outstanding=%zu bad=%lu\n", mf.n_get, mf.n_release, mf.outstanding.size(), mf.bad_release);
    return 0;
}
