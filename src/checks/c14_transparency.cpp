// C14 (transparency): every font record on stdin is S-full with Silf and/or Glat stored compressed under some valid LZ4
// encoding smaller than the plaintext; it must load and shape exactly as the uncompressed S-full.
#include "common/stream.hpp"
#include "common/segcheck.hpp"
#include "common/fonts.hpp"
using namespace vf;
static std::vector<std::string> g_texts; static std::vector<std::string> g_expect; static std::string g_facedump; static bool g_thor;
static void shape_all(gr_face *f, std::vector<std::string> &out) { out.clear(); for (auto &t : g_texts) for (int d = 0; d < 2; ++d) { gr_segment *s = gr_make_seg(nullptr, f, 0, nullptr, gr_utf8, t.c_str(), utf8_count(t), d); out.push_back(dump_segment(s)); if (s) gr_seg_destroy(s); } }
static void init() {
    static const uint32_t alpha[9] = { 0x61, 0x62, 0x63, 0x64, 0x65, 0x66, 0x20, 0x301, 0x300 }; int maxlen = g_thor ? 3 : 2;
    for (int L = 0; L <= maxlen; ++L) { int n = 1; for (int k = 0; k < L; ++k) n *= 9; for (int v = 0; v < n; ++v) { std::vector<uint8_t> b; int x = v; for (int k = 0; k < L; ++k) { ref::enc8(alpha[x % 9], b); x /= 9; } g_texts.push_back(std::string(b.begin(), b.end())); } }
    g_texts.push_back("a\xCC\x81\xCC\x80 b\xCC\x80 cab");
    TableSet ts; if (!ts.from_file(gen_dir() + "/s_full.ttf")) { fprintf(stderr, "missing s_full.ttf\n"); _exit(5); }
    MemFace mf; mf.ts = &ts; gr_face *f = mf.make(0); if (!f) { fprintf(stderr, "s_full does not load\n"); _exit(5); }
    g_facedump = dump_face(f); shape_all(f, g_expect); gr_face_destroy(f);
}
static void body(const StreamCase &c, ShardCtl &ctl) {
    for (unsigned opts : { 0u, 7u }) {
        MemFace mf; mf.ts = &c.ts; gr_face *f = mf.make(opts); ctl.counters[0] = ctl.counters[0] + 1;
        if (!f) { JObj o; o.kv("prop", "C14").kv("kind", "valid_compressed_font_rejected").kv("options", opts); report_stream_fail(c, o, "rejected"); return; }
        std::string fd = dump_face(f); std::vector<std::string> got; shape_all(f, got); gr_face_destroy(f);
        if (fd != g_facedump) { JObj o; o.kv("prop", "C14").kv("kind", "face_dump_differs_from_uncompressed").kv("options", opts); report_stream_fail(c, o, "facedump"); return; }
        for (size_t i = 0; i < got.size(); ++i) if (got[i] != g_expect[i]) { JObj o; o.kv("prop", "C14").kv("kind", "segment_differs_from_uncompressed").kv("options", opts).kv("text_index", (unsigned long long)i); report_stream_fail(c, o, "segment"); return; }
        ctl.counters[1] = ctl.counters[1] + got.size();
        if (!mf.outstanding.empty()) { JObj o; o.kv("prop", "C14").kv("kind", "tables_outstanding"); report_stream_fail(c, o, "outstanding"); mf.drop_outstanding(); }
    }
    // class = hash of the compressed payloads (distinct encodings)
    uint64_t h = 0; for (auto &kv : c.ts.t) if (kv.first == mktag("Silf") || kv.first == mktag("Glat")) h = fnv1a(kv.second.data(), kv.second.size(), h + 1); ctl.cls(h);
}
int main(int argc, char **argv) { g_thor = !strcmp(argval(argc, argv, "--tier", "quick"), "thorough"); return stream_main(argc, argv, "c14_transparency", body, init, { "loads", "segments_compared" }); }
