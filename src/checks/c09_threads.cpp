// C09: a preloaded face and an unhinted font can be shared by concurrent shapers.
// trk build  : access-level exploration (src/sched): record every instrumented shared access of each thread body;
//              empty dependence relation => exactly one Mazurkiewicz class, which has been executed; otherwise every
//              schedule with <= 2 preemptions at the dependent accesses is executed and checked.
// tsan build : the same thread bodies run free under the real ThreadSanitizer (cross-check, separate pass).
#include "common/corpus.hpp"
#include "common/segcheck.hpp"
#include <pthread.h>
#ifdef VF_TRK
#include "sched/trk.h"
#endif
using namespace vf;

struct Config { std::string font; int nthreads; std::vector<std::string> texts; int dir; int mode; };   // mode 0 conforming, 1 control: lazy face, 2 control: hinted font, 3 control: library writes into one caller-supplied buffer
static std::vector<Config> g_cfg;
static float adv_cb(const void *, gr_uint16 gid) { return 5.0f + gid % 7; }

struct Shared { TableSet ts; MemFace mf; gr_face *face = nullptr; gr_font *font = nullptr; const Config *cfg = nullptr; std::string out[4]; };
static Shared *g_sh;
static unsigned long g_gets0 = 0;
static std::string body_result(gr_face *face, gr_font *font, const std::string &tx, int dir, int who = 0) {
    // every thread asks for a DIFFERENT language, none of them the first of the table (lookups that reorder or memoise would collide)
    unsigned nl = gr_face_n_languages(face); gr_feature_val *fv = gr_face_featureval_for_lang(face, nl ? gr_face_lang_by_index(face, uint16_t((unsigned(who) + 1) % nl)) : 0);
    gr_segment *s = gr_make_seg(font, face, 0, fv, gr_utf8, tx.c_str(), utf8_count(tx), dir);
    SegDumpOpts o; o.face = face; o.font = font; std::string d = dump_segment(s, o);
    if (gr_face_n_fref(face)) { uint16_t l = 0x409; uint32_t n = 0; void *lab = gr_fref_label(gr_face_fref(face, 0), &l, gr_utf8, &n); appf(d, "label %u %s\n", n, lab ? (const char*)lab : "(null)"); if (lab) gr_label_destroy(lab); }
    appf(d, "sup %d\n", gr_face_is_char_supported(face, 0x61, 0));
    // more of the read-only API surface: value label in another encoding, lookup by id, face info, a font of the thread's own on the shared face, justification of the thread's own segment
    if (gr_face_n_fref(face)) { const gr_feature_ref *fr = gr_face_fref(face, 0); uint16_t l = 0x409; uint32_t n = 0; void *lab = gr_fref_n_values(fr) ? gr_fref_value_label(fr, 0, &l, gr_utf16, &n) : nullptr; appf(d, "vlabel %u\n", n); if (lab) gr_label_destroy(lab);
        appf(d, "find %d\n", gr_face_find_fref(face, gr_fref_id(fr)) == fr); }
    { const gr_faceinfo *fi = gr_face_info(face, 0); appf(d, "info %u %u\n", fi ? fi->extra_ascent : 0u, fi ? unsigned(fi->has_bidi_pass) : 0u); }
    { gr_font *own = gr_make_font(9.5f, face); if (own) { gr_segment *s2 = gr_make_seg(own, face, 0, nullptr, gr_utf8, tx.c_str(), utf8_count(tx), dir); if (s2) { float w = gr_seg_justify(s2, gr_seg_first_slot(s2), own, gr_seg_advance_X(s2) * 1.2f, gr_justCompleteLine, nullptr, nullptr); appf(d, "just %.3f\n", double(w)); SegDumpOpts o2; o2.face = face; o2.font = own; d += dump_segment(s2, o2); gr_seg_destroy(s2); } gr_font_destroy(own); } }
    if (s) gr_seg_destroy(s); gr_featureval_destroy(fv); return d;
}
static char g_ctrl_buf[8];     // mode 3: every thread asks the library to write a tag into this one buffer (a conflict by the API's own contract)
static void *thread_main(void *arg) {
    int id = int(intptr_t(arg));
#ifdef VF_TRK
    trk_sched_thread_enter(id); trk_thread_begin(id);
#endif
    if (g_sh->cfg->mode == 3) gr_tag_to_str(0x61626364u + unsigned(id), g_ctrl_buf);
    std::string r = body_result(g_sh->face, g_sh->font, g_sh->cfg->texts[id], g_sh->cfg->dir, id);
#ifdef VF_TRK
    { static char buf[4][1 << 16]; size_t n = r.size() < sizeof buf[0] - 1 ? r.size() : sizeof buf[0] - 1; for (size_t i = 0; i < n; ++i) buf[id][i] = r[i]; buf[id][n] = 0; r.clear(); r.shrink_to_fit(); trk_thread_end(); g_sh->out[id] = buf[id]; trk_sched_thread_exit(id); }
#else
    g_sh->out[id] = r;
#endif
    return nullptr;
}
static bool make_shared(Shared &sh, const Config &c) {
    sh.cfg = &c; if (sh.ts.t.empty() && !sh.ts.from_file(c.font[0] == '/' ? c.font : font_path(c.font))) return false; sh.mf.ts = &sh.ts;
    sh.face = sh.mf.make(c.mode == 1 ? gr_face_default : gr_face_preloadAll); if (!sh.face) return false;
    sh.font = c.mode == 2 ? gr_make_font_with_advance_fn(14.f, &sh, adv_cb, sh.face) : gr_make_font(14.f, sh.face); return sh.font != nullptr;
}
static void reference(const Config &c, std::vector<std::string> &ref) { Shared r; if (!make_shared(r, c)) return; for (int i = 0; i < c.nthreads; ++i) ref.push_back(body_result(r.face, r.font, c.texts[i], c.dir, i)); gr_font_destroy(r.font); gr_face_destroy(r.face); }

#ifdef VF_TRK
// one serialised execution under the given choice list; returns decisions
static int run_once(const Config &c, const std::vector<int> &choices, std::vector<trk_decision> &dec) {
    // every schedule starts from the same cold shared state: rebuild face and font (same allocation sequence => same addresses)
    if (g_sh->font) gr_font_destroy(g_sh->font); if (g_sh->face) gr_face_destroy(g_sh->face); g_sh->font = nullptr; g_sh->face = nullptr; g_sh->mf.drop_outstanding(); std::vector<uint32_t>().swap(g_sh->mf.log_get);
    trk_shared_begin(); bool ok = make_shared(*g_sh, c); trk_shared_end(); if (!ok) return -1; g_gets0 = g_sh->mf.n_get;
    static int ch[TRK_MAXDEC]; int n = int(choices.size()) < TRK_MAXDEC ? int(choices.size()) : TRK_MAXDEC; for (int i = 0; i < n; ++i) ch[i] = choices[i];
    trk_sched_begin(c.nthreads, ch, n); pthread_t th[4];
    for (int i = 0; i < c.nthreads; ++i) pthread_create(&th[i], nullptr, thread_main, (void*)intptr_t(i));
    trk_sched_go(); for (int i = 0; i < c.nthreads; ++i) pthread_join(th[i], nullptr);
    static trk_decision d[TRK_MAXDEC]; int nd = trk_sched_decisions(d, TRK_MAXDEC); dec.assign(d, d + (nd < TRK_MAXDEC ? nd : TRK_MAXDEC)); return nd;
}
static std::string symbolize(uint64_t pc) { char cmd[256]; snprintf(cmd, sizeof cmd, "llvm-symbolizer --obj=/proc/%d/exe --functions=short 0x%llx 2>/dev/null | head -2 | tr '\\n' ' '", getpid(), (unsigned long long)pc); FILE *p = popen(cmd, "r"); if (!p) return ""; char b[300] = { 0 }; size_t n = fread(b, 1, sizeof b - 1, p); pclose(p); b[n] = 0; return b; }
#endif

static void setup(Runner &r, const Tier &t) {
    g_cfg.clear();
    struct F { std::string f; std::vector<std::string> tx; }; std::vector<F> fs = {
        { gen_dir() + "/s_full.ttf", { "ab c\xCC\x81", "ca\xCC\x80 b", "de ab" } }, { "small.ttf", { "abc", "cab", "bca" } }, { gen_dir() + "/s_full.ttf", { "a\xF0\x90\x80\x80", "\xF0\x90\x90\x80" "b", "\xF0\x90\x80\x80" "c" } }   /* first lookups above U+FFFF (format 12 part of the cmap cache) on a cold shared face */, { gen_dir() + "/s_full_gmet.ttf", { "ab c\xCC\x81", "ca\xCC\x80 b", "dc ab" } }   /* a rule reads the face-level ascent / descent metrics (no OS/2 table in the font) */, { gen_dir() + "/s_full_badglyph.ttf", { "ae f", "ea", "fe e" } }, { gen_dir() + "/s_full_pseudos.ttf", { "a\xE2\x80\xAA" "b\xE2\x80\xAB", "\xE2\x80\xAC" "c\xE2\x80\xAA", "\xE2\x80\xAD\xE2\x80\xAB" "d" } },    /* 12 pseudo-glyph characters; the texts use the late entries U+202A..U+202D */      /* one unreadable glyph: preloadAll must refuse it (then the case is vacuous) rather than fall back to loading on demand */
        { "Padauk.ttf", { "\xE1\x80\x80\xE1\x80\xBB\xE1\x80\xBD\xE1\x80\x94\xE1\x80\xBA", "\xE1\x80\x99\xE1\x80\xBC\xE1\x80\x94\xE1\x80\xBA\xE1\x80\x80", "\xE1\x80\x80\xE1\x80\xAD\xE1\x80\xAF" } } };
    if (t.thorough) { fs.push_back({ "Scheherazadegr.ttf", { "\xD8\xA8\xD8\xB3\xD9\x85", "\xD8\xB3\xD9\x84\xD8\xA7\xD9\x85", "\xD9\x85\xD8\xA8" } }); fs.push_back({ "Awami_test.ttf", { "\xD9\xBE\xD8\xB3\xD8\xAA", "\xD8\xBA\xD9\x84\xD9\x8A", "\xD8\xB3\xD8\xAA" } }); fs.push_back({ "charis_r_gr.ttf", { "office", "fi\xCC\x81sh", "aff" } }); }
    for (auto &f : fs) for (int n : { 2, 3 }) { if (!t.thorough && n == 3 && f.f.find("Padauk") != std::string::npos) continue; for (int dir : { 0, 1 }) { if (!t.thorough && dir == 1 && n == 3) continue;
        for (int mode = 0; mode < 4; ++mode) { if (mode && (n != 2 || dir != 0)) continue; g_cfg.push_back({ f.f, n, f.tx, dir, mode }); } } }
    r.ncases = g_cfg.size(); r.case_alarm_s = unsigned(r.deadline_s) + 600; r.nshards = 8;
    r.describe = [](uint64_t i) { const Config &c = g_cfg[i]; JObj o; o.kv("font", c.font).kv("threads", c.nthreads).kv("dir", c.dir).kv("configuration", c.mode == 0 ? "preloadAll face + gr_make_font (claimed domain)" : c.mode == 1 ? "POSITIVE CONTROL: lazily loading face" : c.mode == 2 ? "POSITIVE CONTROL: font with advance callback" : "POSITIVE CONTROL (must be detected): every thread has the library write into one caller-supplied buffer");
        JArr tx; for (int k = 0; k < c.nthreads; ++k) tx.add(hex(c.texts[k].data(), c.texts[k].size())); o.raw("texts_utf8_hex", tx.str()); return o; };
    r.body = [](uint64_t ci, ShardCtl &ctl) {
        const Config &c = g_cfg[ci]; std::vector<std::string> ref; reference(c, ref); if (int(ref.size()) != c.nthreads) return;
        Shared sh; g_sh = &sh; if (!make_shared(sh, c)) return; g_gets0 = sh.mf.n_get;
        auto fail = [&](const std::string &kind, const std::string &why) { JObj o; o.kv("font", c.font).kv("threads", c.nthreads).kv("dir", c.dir).kv("mode", c.mode).kv("kind", kind).kv("why", why); report_fail(ci, o); };
        auto check_outputs = [&](const std::string &sched) { for (int i = 0; i < c.nthreads; ++i) if (sh.out[i] != ref[i]) { fail("thread_result_differs", "thread " + std::to_string(i) + " obtained a different segment than a single-threaded call; schedule " + sched); return false; }
            if (c.mode == 0 && sh.mf.n_get != g_gets0) { fail("table_callback_invoked", "get_table was called while threads were shaping; schedule " + sched); return false; } return true; };
#ifdef VF_TRK
        // run 0: record
        trk_clear_dependent(); trk_reset_logs(); trk_set_phase(TRK_RECORD); std::vector<trk_decision> dec; run_once(c, {}, dec); trk_set_phase(TRK_OFF);
        unsigned long long tot_r = 0, tot_w = 0, tot_p = 0; for (int i = 0; i < c.nthreads; ++i) { unsigned long long a, b, p, gr, gw; trk_counts(i, &a, &b, &p, &gr, &gw); tot_r += a; tot_w += b; tot_p += p; }
        ctl.counters[0] = ctl.counters[0] + tot_r; ctl.counters[1] = ctl.counters[1] + tot_w; ctl.counters[2] = ctl.counters[2] + tot_p;
        if (!check_outputs("sequential")) return;
        static trk_conflict conf[16]; int nconf = trk_dependent(c.nthreads, conf, 16);
        uint64_t schedules = 1; std::set<std::string> outcomes;
        if (nconf == 0) { ctl.counters[3] = ctl.counters[3] + 1; if (c.mode == 3) fail("control_not_detected", "positive control configuration produced no conflicting accesses: the tracking runtime does not see the library's shared writes"); else if (c.mode != 0) ctl.counters[8] = ctl.counters[8] + 1; }
        else {
            ctl.counters[4] = ctl.counters[4] + nconf;
            if (c.mode == 0) { std::string w; for (int k = 0; k < nconf && k < 3; ++k) { char b[200]; snprintf(b, sizeof b, "granule %llx written by thread %d at [%s] and %s by thread %d at [%s]; ", (unsigned long long)conf[k].granule, conf[k].writer, symbolize(conf[k].writer_pc).c_str(), conf[k].other_writes ? "written" : "read", conf[k].other, symbolize(conf[k].other_pc).c_str()); w += b; }
                fail("data_race", "conflicting unsynchronised accesses to shared memory: " + w); }
            // explore all schedules with <= 2 preemptions at the dependent accesses (iterate if new dependent granules show up)
            struct Item { std::vector<int> prefix; }; std::vector<Item> stack; stack.push_back({ {} }); const int BOUND = 2; uint64_t cap = 20000;
            while (!stack.empty() && schedules < cap) {
                if (deadline_hit(ctl)) break;
                Item it = stack.back(); stack.pop_back();
                trk_reset_logs(); trk_set_phase(TRK_EXPLORE); std::vector<trk_decision> d; run_once(c, it.prefix, d); trk_set_phase(TRK_OFF); ++schedules;
                if (trk_sched_diverged()) { fail("replay_divergence", "a schedule prefix could not be replayed deterministically"); break; }
                std::string sch; for (auto &x : d) sch += char('0' + x.choice); std::string oc; for (int i = 0; i < c.nthreads; ++i) oc += std::to_string(hash_str(sh.out[i])) + ","; outcomes.insert(oc);
                if (c.mode == 0 && !check_outputs(sch)) break;
                static trk_conflict more[4]; trk_dependent(c.nthreads, more, 4);
                for (size_t i = it.prefix.size(); i < d.size(); ++i) { int pre = 0; for (size_t k = 0; k < i; ++k) if (d[k].choice != 0) ++pre; if (pre + 1 > BOUND) continue;
                    for (int alt = 1; alt < d[i].enabled; ++alt) { Item nx; for (size_t k = 0; k < i; ++k) nx.prefix.push_back(d[k].choice); nx.prefix.push_back(alt); stack.push_back(nx); } }
            }
            if (schedules >= cap) ctl.counters[7] = ctl.counters[7] + 1;
        }
        ctl.counters[5] = ctl.counters[5] + schedules; ctl.counters[6] = ctl.counters[6] + outcomes.size(); ctl.cls(hash_str(c.font) * 13 + c.nthreads * 5 + c.dir * 3 + c.mode);
#else
        // free-running cross-check under the real ThreadSanitizer
        for (int rep = 0; rep < 20; ++rep) { pthread_t th[4]; for (int i = 0; i < c.nthreads; ++i) pthread_create(&th[i], nullptr, thread_main, (void*)intptr_t(i)); for (int i = 0; i < c.nthreads; ++i) pthread_join(th[i], nullptr);
            if (c.mode == 0 && !check_outputs("free-running")) break; ctl.counters[5] = ctl.counters[5] + 1; }
        ctl.cls(hash_str(c.font) * 13 + c.nthreads * 5 + c.dir * 3 + c.mode);
#endif
        gr_font_destroy(sh.font); gr_face_destroy(sh.face);
    };
}
static void extra(const Runner &r, JObj &o) { o.kv("states", (unsigned long long)r.counters[5]).kv("transitions", (unsigned long long)(r.counters[0] + r.counters[1])).kv("validated", (unsigned long long)r.counters[5]); }
int main(int argc, char **argv) {
    std::vector<Sub> subs;
#ifdef VF_TSAN
    // under the real TSan only the claimed configurations are run (the controls would, correctly, be reported as races)
    { Sub s; s.name = "tsan_free_running"; s.setup = [](Runner &r, const Tier &t) { setup(r, t); std::vector<Config> keep; for (auto &c : g_cfg) if (c.mode == 0) keep.push_back(c); g_cfg = keep; r.ncases = g_cfg.size(); }; s.budget_quick = 120; s.budget_thorough = 600; s.counter_names = { "a", "b", "c", "d", "e", "runs" }; s.extra = extra; subs.push_back(s); }
#else
    { Sub s; s.name = "access_level_exploration"; s.setup = setup; s.budget_quick = 400; s.budget_thorough = 900;
      s.counter_names = { "shared_reads", "shared_writes", "private_accesses", "configs_with_empty_dependence", "dependent_granules", "schedules_executed", "distinct_outcomes", "schedule_cap_hit", "library_controls_without_conflict" }; s.extra = extra; subs.push_back(s); }
#endif
    return check_main(argc, argv, "C09", subs);
}
