// C18: feature values are an isolated, range-checked map with font defaults.
// (a) static comparison of every feature/language/label query with independent Feat/Sill/name readers;
// (b) explicit-state BFS over set/clone histories on real gr_feature_val objects against a plain-array model.
#include "common/check_main.hpp"
#include "common/fonts.hpp"
#include "common/dump.hpp"
#include "ref/feat_ref.hpp"
#include "ref/utf_ref.hpp"
#include <algorithm>
#include <deque>
#include <dirent.h>
using namespace vf;

struct FontRef { std::string name, path; };
static std::vector<FontRef> g_fonts;
struct Loaded { TableSet ts; MemFace mf; gr_face *face = nullptr; std::vector<ref::FeatDef> feats; std::vector<ref::LangDef> langs; std::vector<ref::NameRec> names; std::vector<const gr_feature_ref*> fref; bool ok = false; };
static std::map<int, Loaded*> g_l;

static void list_fonts(bool thorough) {
    g_fonts.clear();
    for (auto &sf : shipped_fonts()) g_fonts.push_back({ sf.file, font_path(sf.file) });
    std::vector<std::string> gen; if (DIR *d = opendir(gen_dir().c_str())) { while (dirent *e = readdir(d)) { std::string n = e->d_name; if (n.size() > 4 && n.substr(n.size() - 4) == ".ttf") gen.push_back(n); } closedir(d); }
    std::sort(gen.begin(), gen.end());
    for (auto &n : gen) if (n.compare(0, 5, "feat_") == 0 || n.compare(0, 2, "s_") == 0) g_fonts.push_back({ n, gen_dir() + "/" + n });
    (void)thorough;
}
static Loaded *load(int fi) {
    auto it = g_l.find(fi); if (it != g_l.end()) return it->second;
    Loaded *L = new Loaded; g_l[fi] = L;
    if (!L->ts.from_file(g_fonts[fi].path)) return L;
    L->mf.ts = &L->ts; L->face = L->mf.make(gr_face_default); if (!L->face) return L;
    auto tb = [&](const char *t) -> const Bytes& { static Bytes empty; auto i = L->ts.t.find(mktag(t)); return i == L->ts.t.end() ? empty : i->second; };
    ref::read_feat(tb("Feat"), L->feats); ref::read_sill(tb("Sill"), L->langs); ref::read_names(tb("name"), L->names);
    unsigned k = 0;
    for (auto &f : L->feats) L->fref.push_back((f.flags & 0x0800) ? gr_face_find_fref(L->face, f.id) : gr_face_fref(L->face, uint16_t(k++)));
    L->ok = true; return L;
}
static bool lang_feature(const ref::FeatDef &f) { return f.id == 1; }   // the "language id" feature: not specified by C18, excluded from comparisons
static uint32_t zeropad_ref(uint32_t t) { for (int k = 0; k < 4; ++k) { if (((t >> (8 * k)) & 0xFF) == 0x20) t &= ~(0xFFu << (8 * k)); else break; } return t; }

// expected feature vector for a language tag (0 = defaults)
static std::vector<uint16_t> expect_for_lang(const Loaded &L, uint32_t tag) {
    std::vector<uint16_t> v; for (auto &f : L.feats) v.push_back(f.defv);
    if (tag) for (auto &l : L.langs) if (l.tag == tag) { for (auto &s : l.settings) for (size_t i = 0; i < L.feats.size(); ++i) if (L.feats[i].id == s.first && (L.feats[i].any || s.second <= L.feats[i].maxv)) { v[i] = s.second; break; } break; }
    return v;
}
static bool duplicate_ids(const Loaded &L) { std::set<uint32_t> s; for (auto &f : L.feats) if (!s.insert(f.id).second) return true; return false; }

// ---- static sub-check ----
static std::string scalars_of(const void *p, gr_encform enc, uint32_t *units) {
    std::string s; *units = 0;
    if (enc == gr_utf8) { const uint8_t *b = (const uint8_t*)p; size_t n = strlen((const char*)b); *units = n; size_t i = 0; while (i < n) { ref::Decoded d = ref::dec8(b + i, n - i, i); appf(s, "%X,", d.usv); i += d.units; } }
    else if (enc == gr_utf16) { const uint16_t *b = (const uint16_t*)p; size_t n = 0; while (b[n]) ++n; *units = n; size_t i = 0; while (i < n) { ref::Decoded d = ref::dec16(b + i, n - i, i); appf(s, "%X,", d.usv); i += d.units; } }
    else { const uint32_t *b = (const uint32_t*)p; size_t n = 0; while (b[n]) ++n; *units = n; for (size_t i = 0; i < n; ++i) appf(s, "%X,", b[i]); }
    return s;
}
static void check_label(uint64_t idx, const Loaded &L, const std::string &font, void *(*get)(const gr_feature_ref*, uint16_t, uint16_t*, gr_encform, uint32_t*), const gr_feature_ref *f, uint16_t setting, uint16_t nameid, ShardCtl &c) {
    static const uint16_t langs[] = { 0x409, 0x40C, 0x809, 0x0C0C, 0x411, 0 };
    for (uint16_t want_lang : langs) {
        bool amb; const ref::NameRec *r = ref::pick_name(L.names, nameid, want_lang, &amb); if (amb) continue;
        std::string want; if (r) { size_t i = 0; while (i < r->utf16.size()) { ref::Decoded d = ref::dec16(r->utf16.data() + i, r->utf16.size() - i, i); appf(want, "%X,", d.usv); i += d.units; } }
        bool has_nul = false; if (r) for (uint16_t u : r->utf16) if (!u) has_nul = true;
        bool bad16 = false; if (r) { size_t i = 0; while (i < r->utf16.size()) { ref::Decoded d = ref::dec16(r->utf16.data() + i, r->utf16.size() - i, i); if (!d.ok) bad16 = true; i += d.units; } }
        if (has_nul || bad16) continue;                       // strings with embedded NUL / unpaired surrogates: unspecified
        static const gr_encform encs[3] = { gr_utf8, gr_utf16, gr_utf32 };
        for (gr_encform e : encs) {
            uint16_t lang = want_lang; uint32_t len = 0xDEAD; void *p = get(f, setting, &lang, e, &len);
            const char *why = nullptr; std::string got;
            if (!r) { if (p) why = "label returned although the name table has no such record"; }
            else if (!p) why = "label missing";
            else { uint32_t units; got = scalars_of(p, e, &units);
                if (got != want) why = "label text differs from the name-table string";
                else if (len != units && len != units * (e == gr_utf8 ? 1 : e == gr_utf16 ? 2 : 4)) why = "length is neither the code-unit nor the byte count";
                else if (lang != r->lang) why = "returned language id is not that of the chosen record"; }
            if (p) gr_label_destroy(p);
            c.counters[1] = c.counters[1] + 1;
            if (why) { JObj o; o.kv("font", font).kv("kind", "label").kv("why", why).kv("nameid", nameid).kv("lang", want_lang).kv("enc", int(e)).kv("got", got).kv("want", want); report_fail(idx, o); return; }
        }
    }
}
static void *get_flabel(const gr_feature_ref *f, uint16_t, uint16_t *l, gr_encform e, uint32_t *n) { return gr_fref_label(f, l, e, n); }
static void *get_vlabel(const gr_feature_ref *f, uint16_t s, uint16_t *l, gr_encform e, uint32_t *n) { return gr_fref_value_label(f, s, l, e, n); }

static void setup_static(Runner &r, const Tier &t) {
    list_fonts(t.thorough); r.ncases = g_fonts.size(); r.case_alarm_s = 120;
    r.describe = [](uint64_t i) { JObj o; o.kv("font", g_fonts[i].name).kv("what", "all feature/language/label queries vs independent Feat/Sill/name readers"); return o; };
    r.body = [](uint64_t i, ShardCtl &c) {
        Loaded *Lp = load(int(i)); if (!Lp->ok) { c.cls(1); return; } Loaded &L = *Lp; const std::string &font = g_fonts[i].name; gr_face *f = L.face;
        auto fail = [&](const std::string &why) { JObj o; o.kv("font", font).kv("kind", "static").kv("why", why); report_fail(i, o); };
        unsigned nvis = 0; for (auto &fd : L.feats) if (!(fd.flags & 0x0800)) ++nvis;
        if (gr_face_n_fref(f) != nvis) fail("gr_face_n_fref != number of non-hidden features");
        bool dup = duplicate_ids(L);
        for (size_t k = 0; k < L.feats.size(); ++k) {
            const ref::FeatDef &fd = L.feats[k]; const gr_feature_ref *fr = L.fref[k];
            if (!fr) { if (!dup) fail("feature " + std::to_string(k) + " not retrievable"); continue; }
            if (gr_fref_id(fr) != fd.id && !dup) fail("gr_fref_id mismatch at " + std::to_string(k));
            if (gr_fref_n_values(fr) != fd.values.size()) fail("gr_fref_n_values mismatch at " + std::to_string(k));
            for (size_t s = 0; s < fd.values.size(); ++s) if (uint16_t(gr_fref_value(fr, uint16_t(s))) != fd.values[s]) fail("gr_fref_value mismatch");
            // ids whose low bytes are 0x20 are rewritten by the tag zero-padding of the API (numeric ids such as 0x420): unspecified, skipped
            if (!dup && zeropad_ref(fd.id) == fd.id) { if (gr_face_find_fref(f, fd.id) != fr) fail("gr_face_find_fref(id) does not return the feature");
                uint32_t sp = fd.id; for (int b = 0; b < 4; ++b) { if (((sp >> (8 * b)) & 0xFF) == 0) sp |= 0x20u << (8 * b); else break; }
                if (sp != fd.id && gr_face_find_fref(f, sp) != fr) fail("space-padded feature id selects another feature"); }
            check_label(i, L, font, get_flabel, fr, 0, fd.nameid, c);
            for (size_t s = 0; s < fd.labels.size() && s < 6; ++s) check_label(i, L, font, get_vlabel, fr, uint16_t(s), fd.labels[s], c);
        }
        // languages
        if (!L.feats.empty() && gr_face_n_languages(f) != L.langs.size()) fail("gr_face_n_languages mismatch");
        std::vector<uint32_t> tags = { 0, mktag("zzzz"), 0x20202020 };
        for (size_t k = 0; k < L.langs.size() && k < 400; ++k) { if (!L.feats.empty() && gr_face_lang_by_index(f, uint16_t(k)) != L.langs[k].tag) fail("gr_face_lang_by_index mismatch"); tags.push_back(L.langs[k].tag); }
        std::map<uint32_t, int> tagcount; for (auto &l : L.langs) tagcount[l.tag]++;
        for (uint32_t tg : tags) {
            if (tagcount[tg] > 1) continue;
            for (int pad = 0; pad < 2; ++pad) {
                uint32_t q = tg; if (pad) { for (int b = 0; b < 4; ++b) { if (((q >> (8 * b)) & 0xFF) == 0) q |= 0x20u << (8 * b); else break; } if (q == tg) continue; }
                gr_feature_val *fv = gr_face_featureval_for_lang(f, q); std::vector<uint16_t> want = expect_for_lang(L, zeropad_ref(q));
                for (size_t k = 0; k < L.feats.size(); ++k) { if (!L.fref[k] || lang_feature(L.feats[k]) || dup) continue;
                    uint16_t got = gr_fref_feature_value(L.fref[k], fv);
                    if (got != want[k]) { char b[160]; snprintf(b, sizeof b, "featureval_for_lang(%08x) feature %zu: got %u want %u", q, k, got, want[k]); fail(b); break; } }
                // clones compare equal to their source
                gr_feature_val *cl = gr_featureval_clone(fv);
                for (size_t k = 0; k < L.feats.size(); ++k) if (L.fref[k] && gr_fref_feature_value(L.fref[k], cl) != gr_fref_feature_value(L.fref[k], fv)) { fail("clone differs from source"); break; }
                gr_featureval_destroy(cl); gr_featureval_destroy(fv); c.counters[0] = c.counters[0] + 1;
                // a language query must not change what the defaults are afterwards
                { gr_feature_val *dv = gr_face_featureval_for_lang(f, 0); std::vector<uint16_t> dw = expect_for_lang(L, 0);
                  for (size_t k = 0; k < L.feats.size(); ++k) { if (!L.fref[k] || lang_feature(L.feats[k]) || dup) continue; if (gr_fref_feature_value(L.fref[k], dv) != dw[k]) { char b[160]; snprintf(b, sizeof b, "defaults changed after featureval_for_lang(%08x): feature %zu", q, k); fail(b); break; } }
                  gr_featureval_destroy(dv); }
            }
        }
        c.cls(hash_str(font) ^ L.feats.size());
    };
}

// ---- BFS sub-check ----
struct BfsCase { int font; int start; };   // start: -1 clone(NULL), 0 defaults, k>0 language k-1
static std::vector<BfsCase> g_bfs; static bool g_thor;
struct Op { int feat; uint16_t val; bool clone; };

static void setup_bfs(Runner &r, const Tier &t) {
    list_fonts(t.thorough); g_thor = t.thorough; g_bfs.clear();
    for (int fi = 0; fi < int(g_fonts.size()); ++fi) {
        Loaded *L = load(fi); if (!L->ok || L->feats.empty() || duplicate_ids(*L)) continue;
        g_bfs.push_back({ fi, -1 }); g_bfs.push_back({ fi, 0 });
        for (int k = 0; k < int(L->langs.size()) && k < (t.thorough ? 6 : 2); ++k) g_bfs.push_back({ fi, k + 1 });
    }
    // faces loaded in the parent are inherited by the forked children (read-only use)
    r.ncases = g_bfs.size(); r.case_alarm_s = unsigned(r.deadline_s) + 600;
    r.describe = [](uint64_t i) { JObj o; o.kv("font", g_fonts[g_bfs[i].font].name).kv("start", g_bfs[i].start == -1 ? std::string("gr_featureval_clone(NULL)") : g_bfs[i].start == 0 ? std::string("defaults") : "language #" + std::to_string(g_bfs[i].start - 1))
        .kv("ops", "set(f,v) for f in the boundary feature subset, v in {0,1,mid,max,max+1,0xFFFF}; clone"); return o; };
    r.body = [](uint64_t ci, ShardCtl &c) {
        const BfsCase &bc = g_bfs[ci]; Loaded &L = *load(bc.font); gr_face *face = L.face; const size_t nf = L.feats.size();
        // feature subset for operations (all features are READ after every operation)
        std::set<int> S; for (int k : { 0, 1, 2, int(nf / 2), int(nf) - 3, int(nf) - 2, int(nf) - 1, 31, 32, 63, 64, 95, 96, 126, 127, 128, 129 }) if (k >= 0 && k < int(nf) && L.fref[k]) S.insert(k);
        std::vector<Op> ops;
        for (int k : S) { const ref::FeatDef &fd = L.feats[k]; std::set<uint16_t> vs;
            if (fd.any) vs = { 0, 1, 0x7FFF, 0x8000, 0xFFFF }; else vs = { 0, 1, uint16_t(fd.maxv / 2), uint16_t(fd.maxv), uint16_t(fd.maxv + 1), 0xFFFF };
            for (uint16_t v : vs) ops.push_back({ k, v, false }); }
        ops.push_back({ 0, 0, true });
        size_t budget = g_thor ? 400000 : 30000; int depth = 1; { double n = double(ops.size()); while (depth < 4 && n * ops.size() <= budget) { n *= ops.size(); ++depth; } }
        // start
        auto make_start = [&]() -> gr_feature_val* { if (bc.start == -1) return gr_featureval_clone(nullptr); if (bc.start == 0) return gr_face_featureval_for_lang(face, 0); return gr_face_featureval_for_lang(face, L.langs[bc.start - 1].tag); };
        std::vector<uint16_t> startv = bc.start == -1 ? std::vector<uint16_t>(nf, 0) : expect_for_lang(L, bc.start == 0 ? 0 : L.langs[bc.start - 1].tag);
        auto readall = [&](gr_feature_val *fv, std::vector<uint16_t> &out) { out.resize(nf); for (size_t k = 0; k < nf; ++k) out[k] = L.fref[k] ? gr_fref_feature_value(L.fref[k], fv) : 0; };
        auto same = [&](const std::vector<uint16_t> &got, const std::vector<uint16_t> &want, size_t *at) { for (size_t k = 0; k < nf; ++k) if (L.fref[k] && !lang_feature(L.feats[k]) && got[k] != want[k]) { *at = k; return false; } return true; };
        auto replay = [&](const std::vector<int> &hist) -> gr_feature_val* { gr_feature_val *fv = make_start();
            for (int oi : hist) { const Op &o = ops[oi]; if (o.clone) { gr_feature_val *n = gr_featureval_clone(fv); gr_featureval_destroy(fv); fv = n; } else gr_fref_set_feature_value(L.fref[o.feat], o.val, fv); } return fv; };
        struct Node { std::vector<int> hist; std::vector<uint16_t> model; };
        std::set<std::vector<uint16_t>> seen; std::deque<Node> q; q.push_back({ {}, startv }); seen.insert(startv);
        uint64_t states = 1, trans = 0; std::vector<uint16_t> got; bool failed = false;
        { gr_feature_val *fv = make_start(); readall(fv, got); size_t at; if (!same(got, startv, &at)) { JObj o; o.kv("font", g_fonts[bc.font].name).kv("kind", "start_state").kv("feature", (unsigned long long)at).kv("got", got[at]).kv("want", startv[at]); report_fail(ci, o); failed = true; } gr_featureval_destroy(fv); }
        while (!q.empty() && !failed) {
            if (deadline_hit(c)) break;
            Node n = q.front(); q.pop_front();
            if (int(n.hist.size()) >= depth) continue;
            for (int oi = 0; oi < int(ops.size()) && !failed; ++oi) {
                const Op &o = ops[oi]; gr_feature_val *fv = replay(n.hist); std::vector<uint16_t> model = n.model; const char *why = nullptr; size_t at = 0;
                if (o.clone) {
                    gr_feature_val *cl = gr_featureval_clone(fv); readall(cl, got); if (!same(got, model, &at)) why = "clone differs from its source";
                    // isolation: modify the clone, the source must not move
                    if (!why && !S.empty()) { int k = *S.begin(); gr_fref_set_feature_value(L.fref[k], L.feats[k].any ? 0x1234 : uint16_t(L.feats[k].maxv), cl); readall(fv, got); if (!same(got, model, &at)) why = "writing to a clone changed its source"; }
                    gr_featureval_destroy(cl);
                } else {
                    const ref::FeatDef &fd = L.feats[o.feat]; bool legal = fd.any || o.val <= fd.maxv;
                    int ret = gr_fref_set_feature_value(L.fref[o.feat], o.val, fv);
                    if (legal) model[o.feat] = o.val;
                    readall(fv, got);
                    if ((ret != 0) != legal) why = legal ? "legal value rejected" : "value above the largest defined setting accepted";
                    else if (!same(got, model, &at)) why = (at == size_t(o.feat)) ? "value read back differs from the value set" : "setting one feature changed another feature";
                }
                gr_featureval_destroy(fv); ++trans;
                if (why) { JObj d; d.kv("font", g_fonts[bc.font].name).kv("kind", "feature_map").kv("why", why).kv("op_feature", o.feat).kv("op_value", o.val).kv("clone", o.clone).kv("changed_feature", (unsigned long long)at)
                    .kv("history_len", (unsigned long long)n.hist.size()).kv("nfeatures", (unsigned long long)nf); report_fail(ci, d); failed = true; break; }
                if (seen.insert(model).second) { ++states; Node m; m.hist = n.hist; m.hist.push_back(oi); m.model = model; q.push_back(m); }
            }
        }
        c.counters[0] = c.counters[0] + states; c.counters[1] = c.counters[1] + trans; c.counters[2] = c.counters[2] + depth; c.cls(hash_str(g_fonts[bc.font].name) * 31 + bc.start + 7);
    };
}
static void extra_bfs(const Runner &r, JObj &o) { o.kv("states", (unsigned long long)r.counters[0]).kv("transitions", (unsigned long long)r.counters[1]).kv("validated", (unsigned long long)r.counters[1]); }

int main(int argc, char **argv) {
    std::vector<Sub> subs;
    { Sub s; s.name = "static"; s.setup = setup_static; s.budget_quick = 100; s.counter_names = { "lang_vectors", "label_queries" }; subs.push_back(s); }
    { Sub s; s.name = "bfs"; s.setup = setup_bfs; s.budget_quick = 120; s.budget_thorough = 900; s.counter_names = { "states", "transitions", "sum_depth" }; s.extra = extra_bfs; subs.push_back(s); }
    return check_main(argc, argv, "C18", subs);
}
