// C11: UTF-8/16/32 text is decoded exactly and never read past its end.
// Exhaustive enumeration of short code-unit strings in exact-size guard-page buffers against a
// reference decoder, plus the encoding-equivalence clause on real fonts.
#include "common/check_main.hpp"
#include "common/fonts.hpp"
#include "common/segcheck.hpp"
#include "ref/utf_ref.hpp"
using namespace vf;

static GuardBuf *g_gb;

struct RefSummary {
    size_t chars_before_bad = 0;  // well-formed (or surrogate) characters preceding the first definitely ill-formed sequence / NUL
    bool illformed = false;       // a definitely ill-formed sequence occurs before the first NUL (truncated tail excluded)
    bool surrogate = false;       // an encoded surrogate occurs before the first NUL / first bad
    bool tail_truncated = false;  // the buffer ends in a proper prefix of a multi-unit sequence (liberal test)
    bool has_nul = false; size_t nul_at = 0;
};

template <typename U> static ref::Decoded dec(const U *p, size_t n, size_t off);
template <> ref::Decoded dec<uint8_t>(const uint8_t *p, size_t n, size_t off) { return ref::dec8(p, n, off); }
template <> ref::Decoded dec<uint16_t>(const uint16_t *p, size_t n, size_t off) { return ref::dec16(p, n, off); }
template <> ref::Decoded dec<uint32_t>(const uint32_t *p, size_t n, size_t off) { return ref::dec32(p, n, off); }

static bool tail_trunc(const uint8_t *b, size_t n) {
    for (size_t k = 1; k <= 3 && k <= n; ++k) {
        uint8_t c = b[n - k];
        if (c >= 0xC0) { unsigned need = c >= 0xF0 ? 4 : c >= 0xE0 ? 3 : 2; return need > k; }
        if (c < 0x80) return false;
    }
    return false;
}
static bool tail_trunc(const uint16_t *b, size_t n) { return n && b[n-1] >= 0xD800 && b[n-1] <= 0xDBFF; }
static bool tail_trunc(const uint32_t *, size_t) { return false; }

template <typename U> static RefSummary summarise(const U *b, size_t n) {
    RefSummary r; r.tail_truncated = tail_trunc(b, n);
    size_t i = 0;
    while (i < n) {
        if (b[i] == 0) { r.has_nul = true; r.nul_at = i; break; }
        ref::Decoded d = dec<U>(b + i, n - i, i);
        if (!d.ok) { if (!d.truncated) r.illformed = true; break; }
        if (d.surrogate) r.surrogate = true;
        r.chars_before_bad++; i += d.units;
    }
    return r;
}

template <typename U> static gr_encform encof();
template <> gr_encform encof<uint8_t>() { return gr_utf8; }
template <> gr_encform encof<uint16_t>() { return gr_utf16; }
template <> gr_encform encof<uint32_t>() { return gr_utf32; }

// the count-clause oracle for one code-unit string
template <typename U> static void check_count(uint64_t idx, const U *units, size_t n, ShardCtl &c) {
    const gr_encform enc = encof<U>();
    RefSummary r = summarise(units, n);
    U *p = (U*)g_gb->place(units, n * sizeof(U));
    const void *err = (const void*)0x1; size_t cnt = gr_count_unicode_characters(enc, p, p + n, &err);
    size_t cnt2 = gr_count_unicode_characters(enc, p, p + n, nullptr);
    const char *why = nullptr;
    if (cnt != cnt2) why = "count differs when pError is NULL";
    if (!r.illformed && !r.tail_truncated && !r.surrogate) {
        if (cnt != r.chars_before_bad) why = "well-formed text: wrong count";
        else if (err != nullptr) why = "well-formed text: error reported";
    }
    if (r.illformed && !r.surrogate && err == nullptr) why = "ill-formed text: no error reported";
    if (err != nullptr) {
        if ((const U*)err < p || (const U*)err >= p + n) why = "pError outside the buffer";
        else if (cnt > r.chars_before_bad) why = "count exceeds the well-formed characters preceding the first ill-formed sequence";
    }
    // the same text placed right AFTER a guard page: a read in front of buffer_begin faults, and the answer must not depend on where the buffer lies
    if (!why) { U *f = (U*)g_gb->place_front(units, n * sizeof(U)); const void *ef = (const void*)0x1; size_t cf = gr_count_unicode_characters(enc, f, f + n, &ef);
        if (cf != cnt) why = "count depends on the position of the buffer (bytes in front of buffer_begin?)";
        else if ((ef == nullptr) != (err == nullptr) || (ef && (const U*)ef - f != (const U*)err - p)) why = "error position depends on the position of the buffer (bytes in front of buffer_begin?)"; }
    c.cls((r.illformed ? 1 : 0) | (r.tail_truncated ? 2 : 0) | (r.surrogate ? 4 : 0) | (r.has_nul ? 8 : 0) | (err ? 16 : 0) | (uint64_t(cnt) << 5));
    // buffer_end == NULL variant: legal only for NUL-terminated text; the readable region ends right after the first NUL
    if (!why && r.has_nul) {
        U *q = (U*)g_gb->place(units, (r.nul_at + 1) * sizeof(U));
        const void *e2 = (const void*)0x1; size_t k = gr_count_unicode_characters(enc, q, nullptr, &e2);
        if (!r.illformed && !r.surrogate) { if (k != r.chars_before_bad) why = "NULL end: wrong count"; else if (e2) why = "NULL end: error on well-formed text"; }
        if (r.illformed && !r.surrogate && !e2) why = "NULL end: ill-formed text without error";
        if (e2 && ((const U*)e2 < q || (const U*)e2 > q + r.nul_at)) why = "NULL end: pError outside the text";
        if (e2 && k > r.chars_before_bad) why = "NULL end: count exceeds well-formed prefix";
        c.counters[1] = c.counters[1] + 1;
    }
    c.counters[0] = c.counters[0] + 1;
    if (why) { JObj o; o.kv("api", "gr_count_unicode_characters").kv("enc", int(sizeof(U) * 8)).kv("units", hex(units, n * sizeof(U))).kv("n", (unsigned long long)n).kv("kind", "count_clause").kv("why", why).kv("count", (unsigned long long)cnt).kv("err_off", err ? (long long)((const U*)err - p) : -1LL); report_fail(idx, o); }
}

// ---------- UTF-8: all strings of length 0..3 ----------
static void setup_u8_all3(Runner &r, const Tier &) {
    r.ncases = 1 + 256 + 65536 + 16777216ULL; r.alarm_every = 1 << 16; r.case_alarm_s = 60;
    r.shard_init = [](int) { g_gb = new GuardBuf(64); };
    auto decode = [](uint64_t i, uint8_t *b) -> size_t {
        if (i == 0) return 0; i -= 1; if (i < 256) { b[0] = i; return 1; } i -= 256;
        if (i < 65536) { b[0] = i >> 8; b[1] = i; return 2; } i -= 65536; b[0] = i >> 16; b[1] = i >> 8; b[2] = i; return 3; };
    r.describe = [decode](uint64_t i) { uint8_t b[4]; size_t n = decode(i, b); JObj o; o.kv("enc", 8).kv("units", hex(b, n)); return o; };
    r.body = [decode](uint64_t i, ShardCtl &c) { uint8_t b[4]; size_t n = decode(i, b); check_count<uint8_t>(i, b, n, c); };
}
// ---------- UTF-8: boundary alphabet, length 4..6, and 7..8 over a smaller alphabet ----------
static const uint8_t A16[16] = { 0x00, 0x41, 0x80, 0x8F, 0x90, 0x9F, 0xA0, 0xBF, 0xC1, 0xC2, 0xE0, 0xED, 0xEF, 0xF0, 0xF4, 0xFF };
static const uint8_t A6[6] = { 0x00, 0x41, 0x80, 0xC2, 0xE0, 0xF0 };
static int g_maxlen16;
static uint64_t ipow(uint64_t b, int e) { uint64_t r = 1; while (e--) r *= b; return r; }
static size_t u8b_decode(uint64_t i, uint8_t *b) {
    for (int L = 4; L <= g_maxlen16; ++L) { uint64_t n = ipow(16, L); if (i < n) { for (int k = L - 1; k >= 0; --k) { b[k] = A16[i & 15]; i >>= 4; } return L; } i -= n; }
    for (int L = 7; L <= 8; ++L) { uint64_t n = ipow(6, L); if (i < n) { for (int k = L - 1; k >= 0; --k) { b[k] = A6[i % 6]; i /= 6; } return L; } i -= n; }
    return 0;
}
static void setup_u8_boundary(Runner &r, const Tier &t) {
    g_maxlen16 = t.thorough ? 6 : 5;
    r.ncases = 0; for (int L = 4; L <= g_maxlen16; ++L) r.ncases += ipow(16, L); r.ncases += ipow(6, 7) + ipow(6, 8);
    r.alarm_every = 1 << 16; r.case_alarm_s = 60;
    r.shard_init = [](int) { g_gb = new GuardBuf(64); };
    r.describe = [](uint64_t i) { uint8_t b[8]; size_t n = u8b_decode(i, b); JObj o; o.kv("enc", 8).kv("units", hex(b, n)); return o; };
    r.body = [](uint64_t i, ShardCtl &c) { uint8_t b[8]; size_t n = u8b_decode(i, b); check_count<uint8_t>(i, b, n, c); };
}
// ---------- UTF-8: every first and second byte of a 4-byte string (all 65536 pairs) x third and fourth byte over a 7-value boundary set:
// every lead byte F0..FF with every possible first continuation byte (over-long forms, values beyond U+10FFFF, the invalid leads F5..FF) ----------
static const uint8_t C7[7] = { 0x00, 0x41, 0x7F, 0x80, 0xBF, 0xC0, 0xFF };
static void setup_u8_lead_pairs(Runner &r, const Tier &) {
    r.ncases = 65536ULL * 49; r.alarm_every = 1 << 16; r.case_alarm_s = 60;
    r.shard_init = [](int) { g_gb = new GuardBuf(64); };
    auto decode = [](uint64_t i, uint8_t *b) -> size_t { b[3] = C7[i % 7]; i /= 7; b[2] = C7[i % 7]; i /= 7; b[1] = uint8_t(i); b[0] = uint8_t(i >> 8); return 4; };
    r.describe = [decode](uint64_t i) { uint8_t b[4]; size_t n = decode(i, b); JObj o; o.kv("enc", 8).kv("units", hex(b, n)); return o; };
    r.body = [decode](uint64_t i, ShardCtl &c) { uint8_t b[4]; size_t n = decode(i, b); check_count<uint8_t>(i, b, n, c); };
}
// ---------- UTF-16 ----------
static const uint16_t B16[14] = { 0x0000, 0x0041, 0x007F, 0x0080, 0x07FF, 0x0800, 0xD7FF, 0xD800, 0xDBFF, 0xDC00, 0xDFFF, 0xE000, 0xFFFD, 0xFFFF };
static void setup_u16_short(Runner &r, const Tier &) {
    r.ncases = 1 + 14 + 196 + 2744 + 38416; r.alarm_every = 1 << 12;
    r.shard_init = [](int) { g_gb = new GuardBuf(64); };
    auto decode = [](uint64_t i, uint16_t *b) -> size_t { uint64_t n = 1; for (int L = 0; L <= 4; ++L, n *= 14) { if (i < n) { for (int k = L - 1; k >= 0; --k) { b[k] = B16[i % 14]; i /= 14; } return L; } i -= n; } return 0; };
    r.describe = [decode](uint64_t i) { uint16_t b[4]; size_t n = decode(i, b); JObj o; o.kv("enc", 16).kv("units", hex(b, n * 2)); return o; };
    r.body = [decode](uint64_t i, ShardCtl &c) { uint16_t b[4]; size_t n = decode(i, b); check_count<uint16_t>(i, b, n, c); };
}
static bool g_thor;
static void setup_u16_pairs(Runner &r, const Tier &t) {
    g_thor = t.thorough;
    r.ncases = 65536; r.alarm_every = 16; r.case_alarm_s = 120;
    r.shard_init = [](int) { g_gb = new GuardBuf(64); };
    r.describe = [](uint64_t i) { JObj o; o.kv("enc", 16).kv("first_unit", (unsigned long long)i).kv("second_unit", g_thor ? "all 65536 values" : "14 boundary values + all values in D7F0..E00F"); return o; };
    r.body = [](uint64_t i, ShardCtl &c) {
        uint16_t b[2]; b[0] = uint16_t(i);
        if (g_thor) for (uint32_t v = 0; v < 65536; ++v) { b[1] = uint16_t(v); check_count<uint16_t>(i, b, 2, c); }
        else { for (uint16_t v : B16) { b[1] = v; check_count<uint16_t>(i, b, 2, c); } for (uint32_t v = 0xD7F0; v < 0xE010; v += 1) { b[1] = uint16_t(v); check_count<uint16_t>(i, b, 2, c); } }
    };
}
// ---------- UTF-32 ----------
static std::vector<uint32_t> g_u32single;
static const uint32_t B32[8] = { 0, 0x41, 0xD7FF, 0xE000, 0xFFFF, 0x10000, 0x10FFFF, 0x110000 };
static void setup_u32(Runner &r, const Tier &) {
    g_u32single.clear();
    static const uint32_t bs[] = { 0, 1, 0x41, 0x7F, 0x80, 0x7FF, 0x800, 0xD7FF, 0xD800, 0xDBFF, 0xDC00, 0xDFFF, 0xE000, 0xFFFD, 0xFFFE, 0xFFFF, 0x10000, 0x10001, 0x1FFFF, 0x20000,
        0xFFFFF, 0x100000, 0x10FFFE, 0x10FFFF, 0x110000, 0x110001, 0x1FFFFF, 0x200000, 0x7FFFFFFF, 0x80000000, 0x80000041, 0xFFFFFFFE, 0xFFFFFFFF, 0x00110041, 0xFFFD0000, 0x0010FFFF + 0x1000000, 0xD800D800, 0x41000000, 0x00004100, 0x12345678 };
    for (uint32_t v : bs) g_u32single.push_back(v);
    for (uint32_t k = 0; k < 65536; ++k) { g_u32single.push_back(k << 16); g_u32single.push_back((k << 16) | 0xFFFF); }
    r.ncases = g_u32single.size() + 1 + 8 + 64 + 512; r.alarm_every = 1 << 12;
    r.shard_init = [](int) { g_gb = new GuardBuf(64); };
    auto decode = [](uint64_t i, uint32_t *b) -> size_t {
        if (i < g_u32single.size()) { b[0] = g_u32single[i]; return 1; } i -= g_u32single.size();
        uint64_t n = 1; for (int L = 0; L <= 3; ++L, n *= 8) { if (i < n) { for (int k = L - 1; k >= 0; --k) { b[k] = B32[i & 7]; i >>= 3; } return L; } i -= n; } return 0; };
    r.describe = [decode](uint64_t i) { uint32_t b[4]; size_t n = decode(i, b); JObj o; o.kv("enc", 32).kv("units", hex(b, n * 4)); return o; };
    r.body = [decode](uint64_t i, ShardCtl &c) { uint32_t b[4]; size_t n = decode(i, b); check_count<uint32_t>(i, b, n, c); };
}

// ---------- shaping clause: the same scalar sequence in three encodings ----------
static const uint32_t SC[7] = { 0x41, 0xE9, 0x0E01, 0xFFFD, 0x10000, 0x10FFFF, 0x1000 };
struct ShapeCase { int font; int len; int s[3]; int bad_at; int bad_kind; };   // bad_at -1: none; bad_kind selects the ill-formed unit
static std::vector<ShapeCase> g_sc; static std::vector<std::string> g_scfonts;
static std::map<int, gr_face*> g_faces; static std::map<int, TableSet*> g_ts; static std::map<int, MemFace*> g_mf;
static gr_face *sc_face(int fi) {
    auto it = g_faces.find(fi); if (it != g_faces.end()) return it->second;
    TableSet *ts = new TableSet; std::string p = g_scfonts[fi]; ts->from_file(p[0] == '/' ? p : font_path(p)); MemFace *mf = new MemFace; mf->ts = ts;
    gr_face *f = mf->make(0); g_faces[fi] = f; g_ts[fi] = ts; g_mf[fi] = mf; return f;
}
static void setup_shape(Runner &r, const Tier &t) {
    g_sc.clear(); g_scfonts = { "small.ttf", "Padauk.ttf" };
    if (t.thorough) { g_scfonts.push_back("charis_r_gr.ttf"); g_scfonts.push_back("Scheherazadegr.ttf"); }
    std::string smin = gen_dir() + "/s_min.ttf"; if (access(smin.c_str(), R_OK) == 0) g_scfonts.push_back(smin);
    for (int f = 0; f < int(g_scfonts.size()); ++f)
        for (int len = 1; len <= 3; ++len) {
            int n = 1; for (int k = 0; k < len; ++k) n *= 7;
            for (int v = 0; v < n; ++v) {
                ShapeCase c; c.font = f; c.len = len; int x = v; for (int k = 0; k < len; ++k) { c.s[k] = x % 7; x /= 7; }
                c.bad_at = -1; c.bad_kind = 0; g_sc.push_back(c);
                for (int at = 0; at <= len; ++at) for (int kind = 0; kind < 3; ++kind) { c.bad_at = at; c.bad_kind = kind; g_sc.push_back(c); }
            }
        }
    r.ncases = g_sc.size(); r.case_alarm_s = 60;
    r.shard_init = [](int) { g_gb = new GuardBuf(256); };
    auto build = [](const ShapeCase &c, std::vector<uint8_t> &u8, std::vector<uint16_t> &u16, std::vector<uint32_t> &u32, std::vector<ref::Decoded> r[3]) {
        // single-unit ill-formed sequences on which every resynchronisation policy agrees
        static const uint8_t bad8[3] = { 0x80, 0xFF, 0xC2 }; static const uint16_t bad16[3] = { 0xDC00, 0xDFFF, 0xD800 }; static const uint32_t bad32[3] = { 0x110000, 0xFFFFFFFF, 0x7FFFFFFF };
        for (int k = 0; k <= c.len; ++k) {
            if (k == c.bad_at) {
                // a lone lead (C2 / D800) is only policy-independent when what follows is not a continuation: true here (next is a lead/ASCII/NUL)
                r[0].push_back({ 0xFFFD, u8.size(), 1, false, false, false }); u8.push_back(bad8[c.bad_kind]);
                r[1].push_back({ 0xFFFD, u16.size(), 1, false, false, false }); u16.push_back(bad16[c.bad_kind]);
                r[2].push_back({ 0xFFFD, u32.size(), 1, false, false, false }); u32.push_back(bad32[c.bad_kind]);
            }
            if (k == c.len) break;
            uint32_t usv = SC[c.s[k]];
            size_t a = u8.size(), b = u16.size();
            r[0].push_back({ usv, a, 0, true, false, false }); ref::enc8(usv, u8);
            r[1].push_back({ usv, b, 0, true, false, false }); ref::enc16(usv, u16);
            r[2].push_back({ usv, u32.size(), 1, true, false, false }); u32.push_back(usv);
        }
        u8.push_back(0); u16.push_back(0); u32.push_back(0);
    };
    r.describe = [build](uint64_t i) { const ShapeCase &c = g_sc[i]; std::vector<uint8_t> a; std::vector<uint16_t> b; std::vector<uint32_t> d; std::vector<ref::Decoded> rr[3]; build(c, a, b, d, rr);
        JObj o; o.kv("api", "gr_make_seg x3 encodings").kv("font", g_scfonts[c.font]).kv("utf8", hex(a.data(), a.size())).kv("illformed_at", c.bad_at).kv("illformed_kind", c.bad_kind); return o; };
    r.body = [build](uint64_t i, ShardCtl &ctl) {
        const ShapeCase &c = g_sc[i]; gr_face *f = sc_face(c.font); if (!f) return;
        std::vector<uint8_t> u8; std::vector<uint16_t> u16; std::vector<uint32_t> u32; std::vector<ref::Decoded> rr[3]; build(c, u8, u16, u32, rr);
        size_t nch = rr[0].size();
        const void *bufs[3] = { g_gb->place(u8.data(), u8.size()), nullptr, nullptr };
        GuardBuf gb16(64), gb32(64); bufs[1] = gb16.place(u16.data(), u16.size() * 2); bufs[2] = gb32.place(u32.data(), u32.size() * 4);
        static const gr_encform encs[3] = { gr_utf8, gr_utf16, gr_utf32 };
        std::string dumps[3]; const char *why = nullptr; std::string detail;
        for (int dir = 0; dir < 2 && !why; ++dir) {
            for (int e = 0; e < 3; ++e) {
                gr_segment *s = gr_make_seg(nullptr, f, 0, nullptr, encs[e], bufs[e], nch, dir);
                if (!s) { dumps[e] = "NULLSEG"; continue; }
                SegDumpOpts o; o.bases = false; dumps[e] = dump_segment(s, o);
                SegExpect ex; ex.nchars = nch; ex.chars = &rr[e]; ex.strict_chars = true; ex.n_glyphs = gr_face_n_glyphs(f);
                std::vector<SegViolation> v; check_segment(s, ex, v);
                for (auto &x : v) if (x.prop == "C05" || x.prop == "C03") { why = "structural/char clause"; detail = x.prop + ": " + x.what + " (enc " + std::to_string(e) + ")"; }
                gr_seg_destroy(s);
            }
            if (!why && (dumps[0] != dumps[1] || dumps[0] != dumps[2])) { why = "segments differ between encodings"; detail = dumps[0] + "---\n" + dumps[1] + "---\n" + dumps[2]; }
            ctl.cls(hash_str(dumps[0]));
        }
        ctl.counters[0] = ctl.counters[0] + 6;
        if (why) { JObj o; o.kv("api", "gr_make_seg").kv("font", g_scfonts[c.font]).kv("utf8", hex(u8.data(), u8.size())).kv("kind", "encoding_equivalence").kv("why", why).kv("detail", detail.substr(0, 1500)); report_fail(i, o); }
    };
}

int main(int argc, char **argv) {
    std::vector<Sub> subs;
    { Sub s; s.name = "utf8_all_le3"; s.setup = setup_u8_all3; s.budget_quick = 100; s.budget_thorough = 300; s.counter_names = { "count_calls", "null_end_calls" }; subs.push_back(s); }
    { Sub s; s.name = "utf8_lead_pairs_len4"; s.setup = setup_u8_lead_pairs; s.budget_quick = 60; s.budget_thorough = 600; s.counter_names = { "count_calls", "null_end_calls" }; subs.push_back(s); }
    { Sub s; s.name = "utf8_boundary_4to8"; s.setup = setup_u8_boundary; s.budget_quick = 60; s.budget_thorough = 600; s.counter_names = { "count_calls", "null_end_calls" }; subs.push_back(s); }
    { Sub s; s.name = "utf16_le4_boundary"; s.setup = setup_u16_short; s.counter_names = { "count_calls", "null_end_calls" }; subs.push_back(s); }
    { Sub s; s.name = "utf16_pairs"; s.setup = setup_u16_pairs; s.budget_quick = 60; s.budget_thorough = 900; s.counter_names = { "count_calls", "null_end_calls" }; subs.push_back(s); }
    { Sub s; s.name = "utf32"; s.setup = setup_u32; s.counter_names = { "count_calls", "null_end_calls" }; subs.push_back(s); }
    { Sub s; s.name = "encoding_equivalence"; s.setup = setup_shape; s.budget_quick = 100; s.budget_thorough = 600; s.counter_names = { "segments" }; subs.push_back(s); }
    return check_main(argc, argv, "C11", subs);
}
