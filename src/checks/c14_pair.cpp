// C14 (shipped pair): Awami_test.ttf and Awami_compressed_test.ttf are the same font stored uncompressed / compressed;
// every corpus line and word must shape identically with both, for dir 1 and 3 and both option sets.
#include "common/corpus.hpp"
#include "common/segcheck.hpp"
using namespace vf;
static std::vector<std::string> g_items; static FaceCache *g_fc;
static void setup(Runner &r, const Tier &t) {
    g_items = corpus_items("awami_tests.txt", 0, true); r.ncases = g_items.size() * 4; r.case_alarm_s = 120;
    r.shard_init = [](int) { g_fc = new FaceCache; };
    r.describe = [](uint64_t i) { JObj o; o.kv("fonts", "Awami_test.ttf vs Awami_compressed_test.ttf").kv("text_utf8_hex", hex(g_items[i / 4].data(), g_items[i / 4].size())).kv("dir", (i % 2) ? 3 : 1).kv("options", (i / 2 % 2) ? 7 : 0); return o; };
    r.body = [](uint64_t i, ShardCtl &c) { const std::string &tx = g_items[i / 4]; int dir = (i % 2) ? 3 : 1; unsigned opts = (i / 2 % 2) ? 7 : 0;
        gr_face *a = g_fc->get("Awami_test.ttf", opts), *b = g_fc->get("Awami_compressed_test.ttf", opts); if (!a || !b) { JObj o; o.kv("kind", "awami_font_does_not_load").kv("plain", a != nullptr).kv("compressed", b != nullptr); report_fail(i, o); return; }
        gr_segment *sa = gr_make_seg(nullptr, a, 0, nullptr, gr_utf8, tx.c_str(), utf8_count(tx), dir), *sb = gr_make_seg(nullptr, b, 0, nullptr, gr_utf8, tx.c_str(), utf8_count(tx), dir);
        std::string da = dump_segment(sa), db = dump_segment(sb); if (sa) gr_seg_destroy(sa); if (sb) gr_seg_destroy(sb); c.cls(hash_str(da)); c.counters[0] = c.counters[0] + 2;
        if (da != db) { JObj o; o.kv("kind", "compressed_font_shapes_differently").kv("text_utf8_hex", hex(tx.data(), tx.size())).kv("dir", dir).kv("options", opts); report_fail(i, o); } };
}
int main(int argc, char **argv) { std::vector<Sub> subs; { Sub s; s.name = "awami_pair"; s.setup = setup; s.budget_quick = 100; s.budget_thorough = 600; s.counter_names = { "segments" }; subs.push_back(s); } return check_main(argc, argv, "C14p", subs); }
