// C06: every record is a GDL-lite program compiled to a font plus table 'XPCT' = the reference semantics' result for every
// test string (gen/gdl_lite.py).  The real engine shapes each string; glyph sequence, attachments, slot attributes and (where the
// reference defines them) design-unit positions must be equal.  Every reference trace is thereby validated against the implementation.
#include "common/stream.hpp"
#include "common/segcheck.hpp"
using namespace vf;
struct Rd { const uint8_t *p, *e; template <typename T> T get() { T v; if (p + sizeof(T) > e) { p = e; return T(); } memcpy(&v, p, sizeof(T)); p += sizeof(T); return v; } };
static void body(const StreamCase &c, ShardCtl &ctl) {
    auto xi = c.ts.t.find(mktag("XPCT")); if (xi == c.ts.t.end()) return;
    TableSet ts = c.ts; ts.t.erase(mktag("XPCT")); MemFace mf; mf.ts = &ts; gr_face *f = mf.make(0); ctl.counters[0] = ctl.counters[0] + 1;
    if (!f) { JObj o; o.kv("prop", "C06").kv("kind", "compiled_program_rejected_by_loader"); report_stream_fail(c, o, "rejected"); return; }
    const gr_feature_ref *fr = gr_face_find_fref(f, mktag("tst1"));
    Rd r{ xi->second.data(), xi->second.data() + xi->second.size() }; uint32_t n = r.get<uint32_t>();
    for (uint32_t k = 0; k < n; ++k) {
        int rd = r.get<uint8_t>(), feat = r.get<uint8_t>(), nch = r.get<uint8_t>(); std::vector<uint32_t> txt; for (int i = 0; i < nch; ++i) txt.push_back(r.get<uint32_t>());
        int ns = r.get<uint8_t>(); bool haspos = r.get<uint8_t>() != 0;
        struct E { uint16_t gid; int8_t par; int16_t adv, shift, user, attx, atty; int32_t px; int32_t py; }; std::vector<E> ex(ns);
        for (auto &e : ex) { e.gid = r.get<uint16_t>(); e.par = r.get<int8_t>(); e.adv = r.get<int16_t>(); e.shift = r.get<int16_t>(); e.user = r.get<int16_t>(); e.attx = r.get<int16_t>(); e.atty = r.get<int16_t>(); e.px = r.get<int32_t>(); e.py = int32_t(r.get<uint32_t>()); }
        int32_t eadv = r.get<int32_t>();
        gr_feature_val *fv = gr_face_featureval_for_lang(f, 0); if (fr) gr_fref_set_feature_value(fr, uint16_t(feat), fv);
        gr_segment *s = gr_make_seg(nullptr, f, 0, fv, gr_utf32, txt.data(), txt.size(), rd); gr_featureval_destroy(fv); ctl.counters[1] = ctl.counters[1] + 1;
        std::string why; 
        if (!s) why = "gr_make_seg returned NULL";
        else { std::vector<const gr_slot*> sl = seg_slots(s); std::map<const gr_slot*, int> pos; for (size_t i = 0; i < sl.size(); ++i) pos[sl[i]] = int(i);
            if (int(sl.size()) != ns) why = "slot count " + std::to_string(sl.size()) + ", reference " + std::to_string(ns);
            for (int i = 0; i < ns && why.empty(); ++i) { const gr_slot *q = sl[i]; const E &e = ex[i]; const gr_slot *par = gr_slot_attached_to(q); int pi = par ? pos[par] : -1; char b[200];
                if (gr_slot_gid(q) != e.gid) { snprintf(b, sizeof b, "slot %d gid %u, reference %u", i, gr_slot_gid(q), e.gid); why = b; }
                else if (pi != e.par) { snprintf(b, sizeof b, "slot %d parent %d, reference %d", i, pi, e.par); why = b; }
                else if (gr_slot_attr(q, s, gr_slatAdvX, 0) != e.adv) { snprintf(b, sizeof b, "slot %d advance %d, reference %d", i, gr_slot_attr(q, s, gr_slatAdvX, 0), e.adv); why = b; }
                else if (gr_slot_attr(q, s, gr_slatShiftX, 0) != e.shift) { snprintf(b, sizeof b, "slot %d shift.x %d, reference %d", i, gr_slot_attr(q, s, gr_slatShiftX, 0), e.shift); why = b; }
                else if (gr_slot_attr(q, s, gr_slatUserDefn, 0) != e.user) { snprintf(b, sizeof b, "slot %d user0 %d, reference %d", i, gr_slot_attr(q, s, gr_slatUserDefn, 0), e.user); why = b; }
                else if (par && (gr_slot_attr(q, s, gr_slatAttX, 0) != e.attx || gr_slot_attr(q, s, gr_slatAttY, 0) != e.atty)) { snprintf(b, sizeof b, "slot %d attach point (%d,%d), reference (%d,%d)", i, gr_slot_attr(q, s, gr_slatAttX, 0), gr_slot_attr(q, s, gr_slatAttY, 0), e.attx, e.atty); why = b; }
                else if (haspos && (gr_slot_origin_X(q) != float(e.px) || gr_slot_origin_Y(q) != float(e.py))) { snprintf(b, sizeof b, "slot %d origin (%g,%g), reference (%d,%d)", i, gr_slot_origin_X(q), gr_slot_origin_Y(q), e.px, e.py); why = b; } }
            if (why.empty() && haspos && gr_seg_advance_X(s) != float(eadv)) why = "segment advance " + std::to_string(gr_seg_advance_X(s)) + ", reference " + std::to_string(eadv);
            SegDumpOpts o; o.positions = false; o.attrs = false; ctl.cls(hash_str(dump_segment(s, o))); if (haspos) ctl.counters[2] = ctl.counters[2] + 1; gr_seg_destroy(s); }
        if (!why.empty()) { std::string t; for (uint32_t ch : txt) t += char(ch < 128 ? ch : '?'); JObj o; o.kv("prop", "C06").kv("kind", "differs_from_reference_semantics").kv("why", why).kv("text", t).kv("dir", rd).kv("feature", feat); report_stream_fail(c, o, "C06:" + why); break; }
    }
    gr_face_destroy(f);
}
int main(int argc, char **argv) { return stream_main(argc, argv, "c06_stream", body, nullptr, { "programs", "shapings_compared", "with_positions" }); }
