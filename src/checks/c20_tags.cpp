// C20: tag/string conversions honour their buffer contracts.  Exhaustive enumeration of short C strings
// in exact-size guard-page buffers, of tags, and of zero-/space-padded tag prefixes on every tag-taking entry point.
#include "common/check_main.hpp"
#include "common/fonts.hpp"
#include "common/dump.hpp"
using namespace vf;

static const uint8_t BND[9] = { 0x01, 0x20, 0x41, 0x7A, 0x7F, 0x80, 0xA0, 0xFE, 0xFF };

// ---- str_to_tag case space ----
static uint64_t pow9(int n) { uint64_t r = 1; while (n--) r *= 9; return r; }
static size_t s2t_case(uint64_t idx, uint8_t out[9]) {   // returns length
    if (idx == 0) return 0;
    idx -= 1;
    if (idx < 255) { out[0] = uint8_t(idx + 1); return 1; }
    idx -= 255;
    if (idx < 255 * 255) { out[0] = uint8_t(idx / 255 + 1); out[1] = uint8_t(idx % 255 + 1); return 2; }
    idx -= 255 * 255;
    for (int L = 3; L <= 8; ++L) {
        uint64_t n = pow9(L);
        if (idx < n) { for (int i = L - 1; i >= 0; --i) { out[i] = BND[idx % 9]; idx /= 9; } return L; }
        idx -= n;
    }
    return 0;
}
static uint64_t s2t_ncases(int maxlen) { uint64_t n = 1 + 255 + 255 * 255; for (int L = 3; L <= maxlen; ++L) n += pow9(L); return n; }
static uint32_t ref_str_to_tag(const uint8_t *s, size_t len) {
    uint32_t t = 0; for (size_t i = 0; i < 4; ++i) t = (t << 8) | (i < len ? s[i] : 0); return t;
}

static GuardBuf *g_gb;

static void setup_s2t(Runner &r, const Tier &t) {
    r.ncases = s2t_ncases(t.thorough ? 8 : 6);
    r.alarm_every = 1 << 16;
    r.shard_init = [](int) { g_gb = new GuardBuf(64); };
    r.describe = [](uint64_t i) { uint8_t b[9]; size_t L = s2t_case(i, b); JObj o; o.kv("api", "gr_str_to_tag").kv("len", (unsigned long long)L).kv("bytes", hex(b, L)); return o; };
    r.body = [](uint64_t i, ShardCtl &c) {
        uint8_t b[9]; size_t L = s2t_case(i, b); b[L] = 0;
        const char *p = (const char*)g_gb->place(b, L + 1);           // NUL is the last readable byte
        uint32_t got = gr_str_to_tag(p), want = ref_str_to_tag(b, L);
        c.cls(L * 4 + (L && b[0] >= 0x80) * 2 + (L > 1 && b[1] >= 0x80));
        if (got != want) { JObj o; o.kv("api", "gr_str_to_tag").kv("len", (unsigned long long)L).kv("bytes", hex(b, L)).kv("got", (unsigned long long)got).kv("want", (unsigned long long)want).kv("kind", "wrong_value"); report_fail(i, o); }
    };
}

// ---- tag_to_str case space ----
static const uint8_t TB[16] = { 0x00, 0x01, 0x20, 0x30, 0x41, 0x5A, 0x61, 0x7A, 0x7F, 0x80, 0x81, 0xA0, 0xC3, 0xFE, 0xFF, 0x2D };
static bool g_thorough;
static void one_tag(uint64_t caseidx, uint32_t tag, ShardCtl &c) {
    uint8_t want[4] = { uint8_t(tag >> 24), uint8_t(tag >> 16), uint8_t(tag >> 8), uint8_t(tag) };
    // (a) exactly four writable bytes, fifth is a guard page
    uint8_t *p4 = g_gb->place(nullptr, 4); memset(p4, 0x55, 4);
    gr_tag_to_str(tag, (char*)p4);
    bool ok = !memcmp(p4, want, 4);
    // (b) eight-byte buffer pre-filled; bytes 4..7 must be untouched
    uint8_t *p8 = g_gb->place(nullptr, 8); memset(p8, 0xAA, 8);
    gr_tag_to_str(tag, (char*)p8);
    bool ok8 = !memcmp(p8, want, 4) && p8[4] == 0xAA && p8[5] == 0xAA && p8[6] == 0xAA && p8[7] == 0xAA;
    // (c) inverse on four-character tags
    bool okrt = true;
    if (want[0] && want[1] && want[2] && want[3]) {
        uint8_t s[5] = { want[0], want[1], want[2], want[3], 0 };
        okrt = gr_str_to_tag((const char*)g_gb->place(s, 5)) == tag;
    }
    if (!ok || !ok8 || !okrt) {
        JObj o; o.kv("api", "gr_tag_to_str").kv("tag", (unsigned long long)tag).kv("kind", !ok ? "wrong_bytes" : !ok8 ? "wrote_beyond_4" : "not_inverse");
        report_fail(caseidx, o);
    }
    (void)c;
}
static void setup_t2s(Runner &r, const Tier &t) {
    g_thorough = t.thorough;
    r.ncases = 65536;
    r.alarm_every = 64; r.case_alarm_s = 60;
    r.shard_init = [](int) { g_gb = new GuardBuf(64); };
    r.describe = [](uint64_t i) { JObj o; o.kv("api", "gr_tag_to_str");
        if (g_thorough) o.kv("tags", "all 65536 tags with high half " + std::to_string(i));
        else { uint32_t tag = (uint32_t(TB[(i >> 12) & 15]) << 24) | (uint32_t(TB[(i >> 8) & 15]) << 16) | (uint32_t(TB[(i >> 4) & 15]) << 8) | TB[i & 15]; o.kv("tag", (unsigned long long)tag); }
        return o; };
    r.body = [](uint64_t i, ShardCtl &c) {
        if (g_thorough) { for (uint32_t lo = 0; lo < 65536; ++lo) one_tag(i, uint32_t(i << 16) | lo, c); c.counters[0] = c.counters[0] + 65536; c.cls(i >> 12); }
        else { uint32_t tag = (uint32_t(TB[(i >> 12) & 15]) << 24) | (uint32_t(TB[(i >> 8) & 15]) << 16) | (uint32_t(TB[(i >> 4) & 15]) << 8) | TB[i & 15]; one_tag(i, tag, c); c.counters[0] = c.counters[0] + 1; c.cls(tag >> 24); }
    };
}

// ---- padded tags on tag-taking entry points ----
struct PadCase { int font; int kind; uint32_t tag; int k; };   // kind 0 feature id, 1 language, 2 script
static std::vector<PadCase> g_pad;
static std::vector<std::string> g_padfonts, g_padtext;
static std::map<int, gr_face*> g_faces; static std::map<int, TableSet*> g_ts; static std::map<int, MemFace*> g_mf;

static gr_face *pad_face(int fi) {
    auto it = g_faces.find(fi); if (it != g_faces.end()) return it->second;
    TableSet *ts = new TableSet; ts->from_file(g_padfonts[fi][0] == '/' ? g_padfonts[fi] : font_path(g_padfonts[fi])); MemFace *mf = new MemFace; mf->ts = ts;
    gr_face *f = mf->make(gr_face_preloadAll); g_faces[fi] = f; g_ts[fi] = ts; g_mf[fi] = mf; return f;
}
static uint32_t padded(uint32_t tag, int k, uint8_t fill) {
    uint32_t r = 0; for (int i = 0; i < 4; ++i) { uint8_t b = i < k ? uint8_t(tag >> (24 - 8 * i)) : fill; r = (r << 8) | b; } return r;
}
static std::string fv_dump(const gr_face *f, gr_feature_val *fv) {
    std::string d; unsigned n = gr_face_n_fref(f);
    for (unsigned i = 0; i < n; ++i) appf(d, "%u,", gr_fref_feature_value(gr_face_fref(f, uint16_t(i)), fv));
    return d;
}
static void setup_pad(Runner &r, const Tier &t) {
    g_pad.clear(); g_padfonts.clear(); g_padtext.clear();
    std::vector<ShippedFont> sf = shipped_fonts();
    if (!t.thorough) sf.resize(8);
    static std::vector<std::string> gen; gen = { gen_dir() + "/feat_shortids.ttf", gen_dir() + "/feat_spaceids.ttf", gen_dir() + "/feat_1_31_1.ttf", gen_dir() + "/s_full.ttf" };
    for (auto &g : gen) sf.push_back({ g.c_str(), "test_small.txt", false });
    for (size_t i = 0; i < sf.size(); ++i) {
        TableSet ts; if (!ts.from_file(sf[i].file[0] == '/' ? std::string(sf[i].file) : font_path(sf[i].file))) continue;
        MemFace mf; mf.ts = &ts; gr_face *f = mf.make(0); if (!f) continue;
        int fi = int(g_padfonts.size()); g_padfonts.push_back(sf[i].file);
        auto items = corpus_items(sf[i].corpus, 3); g_padtext.push_back(items.empty() ? "ab" : items[0]);
        std::set<uint32_t> ids, langs;
        for (unsigned k = 0; k < gr_face_n_fref(f); ++k) ids.insert(gr_fref_id(gr_face_fref(f, uint16_t(k))));
        for (unsigned k = 0; k < gr_face_n_languages(f) && k < (t.thorough ? 400u : 40u); ++k) langs.insert(gr_face_lang_by_index(f, uint16_t(k)));
        ids.insert(0x20202020); ids.insert(mktag("zzzz")); langs.insert(0x20202020); langs.insert(mktag("en  "));
        for (uint32_t id : ids) for (int k = 0; k <= 4; ++k) g_pad.push_back({ fi, 0, id, k });
        for (uint32_t l : langs) for (int k = 0; k <= 4; ++k) g_pad.push_back({ fi, 1, l, k });
        static const char *scripts[] = { "latn", "arab", "mymr", "    " };
        for (const char *s : scripts) for (int k = 0; k <= 4; ++k) g_pad.push_back({ fi, 2, mktag(s), k });
        gr_face_destroy(f);
    }
    r.ncases = g_pad.size(); r.case_alarm_s = 60;
    r.describe = [](uint64_t i) { const PadCase &c = g_pad[i]; JObj o; o.kv("api", c.kind == 0 ? "gr_face_find_fref" : c.kind == 1 ? "gr_face_featureval_for_lang" : "script_tag_entry_points")
        .kv("font", g_padfonts[c.font]).kv("tag", tagstr(c.tag)).kv("prefix_len", c.k); return o; };
    r.body = [](uint64_t i, ShardCtl &ctl) {
        const PadCase &c = g_pad[i]; gr_face *f = pad_face(c.font); if (!f) return;
        uint32_t z = padded(c.tag, c.k, 0), s = padded(c.tag, c.k, 0x20);
        // a prefix that itself ENDS in a padding byte (NUL or space) merges with the padding that is appended: not a well-formed tag, skipped
        // (padding bytes in the middle of a tag, followed by another character, are ordinary characters)
        if (c.k > 0) { uint8_t ch = uint8_t(c.tag >> (24 - 8 * (c.k - 1))); if (ch == 0 || ch == 0x20) return; }
        bool ok = true; std::string why;
        if (c.kind == 0) {
            const gr_feature_ref *a = gr_face_find_fref(f, z), *b = gr_face_find_fref(f, s);
            if (a != b) { ok = false; why = "find_fref differs"; }
            // a complete id of the font (not ending in a space, which the API reads as padding) must select exactly that feature
            if (ok && c.k == 4 && (z & 0xFF) != 0x20) { bool isid = false; for (unsigned q = 0; q < gr_face_n_fref(f); ++q) if (gr_fref_id(gr_face_fref(f, uint16_t(q))) == z) isid = true;
                if (isid && (!a || gr_fref_id(a) != z)) { ok = false; why = a ? "find_fref(id) selects a different feature" : "find_fref(id) does not find the feature with that id"; } }
            ctl.cls(a ? 2 : 1); if (a) ctl.counters[1] = ctl.counters[1] + 1;
        } else if (c.kind == 1) {
            gr_feature_val *a = gr_face_featureval_for_lang(f, z), *b = gr_face_featureval_for_lang(f, s), *d = gr_face_featureval_for_lang(f, 0);
            std::string da = fv_dump(f, a), db = fv_dump(f, b), dd = fv_dump(f, d);
            if (da != db) { ok = false; why = "featureval_for_lang differs: " + da + " vs " + db; }
            ctl.cls(da == dd ? 3 : 4); if (da != dd) ctl.counters[1] = ctl.counters[1] + 1;
            gr_featureval_destroy(a); gr_featureval_destroy(b); gr_featureval_destroy(d);
        } else {
            const std::string &txt = g_padtext[c.font]; size_t n = utf8_count(txt);
            gr_segment *a = gr_make_seg(nullptr, f, z, nullptr, gr_utf8, txt.c_str(), n, 0), *b = gr_make_seg(nullptr, f, s, nullptr, gr_utf8, txt.c_str(), n, 0);
            std::string da = dump_segment(a), db = dump_segment(b);
            if (da != db) { ok = false; why = "gr_make_seg(script) differs"; }
            if (gr_face_info(f, z) != gr_face_info(f, s)) { ok = false; why = "gr_face_info(script) differs"; }
            for (uint32_t ch : { 0x41u, 0x1000u, 0x627u, 0xFFFFu }) if (gr_face_is_char_supported(f, ch, z) != gr_face_is_char_supported(f, ch, s)) { ok = false; why = "is_char_supported(script) differs"; }
            ctl.cls(hash_str(da)); ctl.counters[1] = ctl.counters[1] + 1;
            if (a) gr_seg_destroy(a); if (b) gr_seg_destroy(b);
        }
        ctl.counters[0] = ctl.counters[0] + 1;
        if (!ok) { JObj o; o.kv("api", c.kind == 0 ? "gr_face_find_fref" : c.kind == 1 ? "gr_face_featureval_for_lang" : "script").kv("font", g_padfonts[c.font]).kv("tag", tagstr(c.tag)).kv("prefix_len", c.k).kv("kind", "padding_not_equivalent").kv("why", why); report_fail(i, o); }
    };
}

int main(int argc, char **argv) {
    std::vector<Sub> subs;
    { Sub s; s.name = "str_to_tag"; s.setup = setup_s2t; s.budget_quick = 60; s.budget_thorough = 600; subs.push_back(s); }
    { Sub s; s.name = "tag_to_str"; s.setup = setup_t2s; s.budget_quick = 30; s.budget_thorough = 900; s.counter_names = { "tags" }; subs.push_back(s); }
    { Sub s; s.name = "padded_tags"; s.setup = setup_pad; s.budget_quick = 60; s.budget_thorough = 300; s.counter_names = { "compared", "non_default_hits" }; subs.push_back(s); }
    return check_main(argc, argv, "C20", subs);
}
