// C12: gr_make_seg consumes no more text than its contract allows (stops at the first NUL even when
// nChars over-estimates).  Exhaustive over short NUL-terminated strings x encodings x nChars x dir x fonts.
#include "common/check_main.hpp"
#include "common/fonts.hpp"
#include "common/segcheck.hpp"
using namespace vf;

static const int NA = 7;           // alphabet size
struct Item { std::vector<uint8_t> u8; std::vector<uint16_t> u16; std::vector<uint32_t> u32; };
static std::vector<Item> alphabet() {
    std::vector<Item> a(NA);
    const uint32_t sc[4] = { 0x61, 0xE9, 0x1000, 0x10000 };
    for (int i = 0; i < 4; ++i) { ref::enc8(sc[i], a[i].u8); ref::enc16(sc[i], a[i].u16); a[i].u32.push_back(sc[i]); }
    a[4].u8 = { 0xC2 }; a[4].u16 = { 0xD800 }; a[4].u32 = { 0x110000 };       // lone lead right before whatever follows
    a[5].u8 = { 0xF0 }; a[5].u16 = { 0xDBFF }; a[5].u32 = { 0xFFFFFFFF };
    a[6].u8 = { 0x20 }; a[6].u16 = { 0x20 }; a[6].u32 = { 0x20 };
    return a;
}
struct Case { int font, enc, len, s[3], nmode, dir; };
static std::vector<Case> g_cases; static std::vector<std::string> g_fonts; static std::vector<Item> g_alpha;
static std::map<int, gr_face*> g_faces; static std::map<int, TableSet*> g_ts; static std::map<int, MemFace*> g_mf;
static GuardBuf *g_gb;
static gr_face *face_of(int fi) {
    auto it = g_faces.find(fi); if (it != g_faces.end()) return it->second;
    TableSet *ts = new TableSet; std::string p = g_fonts[fi]; ts->from_file(p[0] == '/' ? p : font_path(p)); MemFace *mf = new MemFace; mf->ts = ts;
    gr_face *f = mf->make(0); g_faces[fi] = f; g_ts[fi] = ts; g_mf[fi] = mf; return f;
}
static size_t nchars_for(int mode, size_t len) { switch (mode) { case 0: return len; case 1: return len + 1; case 2: return len + 2; case 3: return 2 * len + 1; default: return 64; } }

static void build_text(const Case &c, std::vector<uint8_t> &bytes) {
    bytes.clear();
    for (int k = 0; k < c.len; ++k) {
        const Item &it = g_alpha[c.s[k]];
        if (c.enc == 0) bytes.insert(bytes.end(), it.u8.begin(), it.u8.end());
        else if (c.enc == 1) for (uint16_t u : it.u16) { bytes.push_back(u & 0xFF); bytes.push_back(u >> 8); }
        else for (uint32_t u : it.u32) { bytes.push_back(u); bytes.push_back(u >> 8); bytes.push_back(u >> 16); bytes.push_back(u >> 24); }
    }
    for (int k = 0; k < (c.enc == 0 ? 1 : c.enc == 1 ? 2 : 4); ++k) bytes.push_back(0);   // terminator is the last readable unit
}

static void setup(Runner &r, const Tier &t) {
    g_alpha = alphabet(); g_cases.clear(); g_fonts = { "small.ttf", "Padauk.ttf" };
    if (t.thorough) { g_fonts.push_back("Scheherazadegr.ttf"); g_fonts.push_back("charis_r_gr.ttf"); g_fonts.push_back("Awami_test.ttf"); }
    std::string smin = gen_dir() + "/s_min.ttf"; if (access(smin.c_str(), R_OK) == 0) g_fonts.push_back(smin);
    { std::string ce = gen_dir() + "/s_full_cmapedge.ttf"; if (access(ce.c_str(), R_OK) == 0) g_fonts.push_back(ce); }      // a font whose cmap maps U+0000 to a glyph (as Scheherazade and Awami do)
    for (int f = 0; f < int(g_fonts.size()); ++f) for (int enc = 0; enc < 3; ++enc) for (int len = 0; len <= 3; ++len) {
        int n = 1; for (int k = 0; k < len; ++k) n *= NA;
        for (int v = 0; v < n; ++v) for (int nm = 1; nm < 5; ++nm) for (int dir = 0; dir < 2; ++dir) {
            Case c; c.font = f; c.enc = enc; c.len = len; int x = v; for (int k = 0; k < len; ++k) { c.s[k] = x % NA; x /= NA; } c.nmode = nm; c.dir = dir;
            if (nchars_for(nm, len) == size_t(len)) continue;
            g_cases.push_back(c);
        }
    }
    r.ncases = g_cases.size(); r.case_alarm_s = 60;
    r.shard_init = [](int) { g_gb = new GuardBuf(256); };
    r.describe = [](uint64_t i) { const Case &c = g_cases[i]; std::vector<uint8_t> b; build_text(c, b); JObj o;
        o.kv("api", "gr_make_seg").kv("font", g_fonts[c.font]).kv("enc", c.enc == 0 ? 8 : c.enc == 1 ? 16 : 32).kv("text_bytes_le", hex(b.data(), b.size())).kv("true_len", c.len).kv("nChars", (unsigned long long)nchars_for(c.nmode, c.len)).kv("dir", c.dir); return o; };
    r.body = [](uint64_t i, ShardCtl &ctl) {
        const Case &c = g_cases[i]; gr_face *f = face_of(c.font); if (!f) return;
        std::vector<uint8_t> b; build_text(c, b);
        const void *p = g_gb->place(b.data(), b.size());
        static const gr_encform encs[3] = { gr_utf8, gr_utf16, gr_utf32 };
        gr_segment *ref = gr_make_seg(nullptr, f, 0, nullptr, encs[c.enc], p, c.len, c.dir);
        std::string dref = dump_segment(ref);
        gr_segment *s = gr_make_seg(nullptr, f, 0, nullptr, encs[c.enc], p, nchars_for(c.nmode, c.len), c.dir);   // over-estimate: a read past the NUL faults
        std::string d = dump_segment(s);
        const char *why = nullptr;
        if (s && gr_seg_n_cinfo(s) != unsigned(c.len)) why = "n_cinfo differs from the number of characters before the NUL";
        else if (d != dref) why = "segment differs from the one made with the exact count";
        ctl.cls(hash_str(dref)); ctl.counters[0] = ctl.counters[0] + 2;
        if (s) gr_seg_destroy(s); if (ref) gr_seg_destroy(ref);
        if (why) { JObj o; o.kv("api", "gr_make_seg").kv("font", g_fonts[c.font]).kv("enc", c.enc == 0 ? 8 : c.enc == 1 ? 16 : 32).kv("text_bytes_le", hex(b.data(), b.size())).kv("true_len", c.len)
            .kv("nChars", (unsigned long long)nchars_for(c.nmode, c.len)).kv("dir", c.dir).kv("kind", "nchars_overestimate").kv("why", why).kv("got", d.substr(0, 600)).kv("want", dref.substr(0, 600)); report_fail(i, o); }
    };
}

int main(int argc, char **argv) {
    std::vector<Sub> subs;
    { Sub s; s.name = "overestimate"; s.setup = setup; s.budget_quick = 100; s.budget_thorough = 600; s.counter_names = { "segments" }; subs.push_back(s); }
    return check_main(argc, argv, "C12", subs);
}
