// C03/C04/C05 (and C02's safety clauses) on the shipped fonts: every corpus line and word, every substring of length 1..4 of the
// first lines (so that texts starting inside a cluster / with a mark occur), x dir flags 0..7 x {font NULL, ppm 16}.
#include "common/corpus.hpp"
#include "common/segcheck.hpp"
#include "common/memface.hpp"
#include "ref/cmap_ref.hpp"
#include <dirent.h>
#include <algorithm>
using namespace vf;
static std::vector<std::string> g_fonts; static std::vector<std::vector<std::string>> g_items; struct Case { int font, item; }; static std::vector<Case> g_cases; static FaceCache *g_fc;
static std::vector<std::string> utf8_chars(const std::string &s) { std::vector<std::string> v; size_t i = 0; while (i < s.size()) { size_t j = i + 1; while (j < s.size() && (uint8_t(s[j]) & 0xC0) == 0x80) ++j; v.push_back(s.substr(i, j - i)); i = j; } return v; }
static void setup(Runner &r, const Tier &t) {
    g_fonts.clear(); g_items.clear(); g_cases.clear();
    for (auto &sf : shipped_fonts()) { if (std::string(sf.file) == "tiny.ttf") continue; const bool coll = std::string(sf.file).find("Awami") != std::string::npos;     // the collision fonts: the whole corpus even in quick (kern / shift colliders are reached by few lines)
        std::vector<std::string> items = corpus_items(sf.corpus, (t.thorough || coll) ? 0 : 1500, true); std::set<std::string> seen(items.begin(), items.end());
        std::vector<std::string> lines = corpus_items(sf.corpus, t.thorough ? 60 : 12, false);
        for (auto &l : lines) { std::vector<std::string> ch = utf8_chars(l); for (size_t a = 0; a < ch.size() && a < 60; ++a) { std::string sub; for (size_t k = 0; k < 4 && a + k < ch.size(); ++k) { sub += ch[a + k]; if (seen.insert(sub).second) items.push_back(sub); } } }
        int fi = int(g_fonts.size()); g_fonts.push_back(sf.file); g_items.push_back(items); for (int it = 0; it < int(items.size()); ++it) g_cases.push_back({ fi, it }); }
    // every synthesised seed font (all S-full / S-min / Feat variants: the edge-case fonts of the other checks) x all strings of length 0..3 (quick 0..2 + a sample of 3) over the S-full repertoire
    { static const uint32_t alpha[11] = { 0x61, 0x62, 0x63, 0x64, 0x65, 0x66, 0x20, 0x301, 0x300, 0x2022, 0x10000 }; std::vector<std::string> tx;
      for (int L = 0; L <= 3; ++L) { int n = 1; for (int k = 0; k < L; ++k) n *= 11; for (int v = 0; v < n; ++v) { std::vector<uint8_t> b; int x = v; for (int k = 0; k < L; ++k) { ref::enc8(alpha[x % 11], b); x /= 11; } tx.push_back(std::string(b.begin(), b.end())); } }
      std::vector<std::string> gen; if (DIR *d = opendir(gen_dir().c_str())) { while (dirent *e = readdir(d)) { std::string n = e->d_name; if (n.size() > 4 && n.substr(n.size() - 4) == ".ttf") gen.push_back(n); } closedir(d); } std::sort(gen.begin(), gen.end());
      for (auto &g : gen) { int fi = int(g_fonts.size()); g_fonts.push_back(gen_dir() + "/" + g); g_items.push_back(tx); for (int it = 0; it < int(tx.size()); ++it) g_cases.push_back({ fi, it }); } }
    r.ncases = g_cases.size(); r.case_alarm_s = 120; r.shard_init = [](int) { g_fc = new FaceCache; };
    r.describe = [](uint64_t i) { const Case &c = g_cases[i]; const std::string &tx = g_items[c.font][c.item]; JObj o; o.kv("font", g_fonts[c.font]).kv("text_utf8_hex", hex(tx.data(), tx.size())).kv("dirs", "0..7").kv("fonts", "NULL and ppm 16"); return o; };
    r.body = [](uint64_t i, ShardCtl &ctl) { const Case &c = g_cases[i]; const std::string &tx = g_items[c.font][c.item]; gr_face *f = g_fc->get(g_fonts[c.font], gr_face_preloadAll); if (!f) return; static std::map<gr_face*, gr_font*> fonts; gr_font *&font = fonts[f]; if (!font) font = gr_make_font(16.f, f);
        std::vector<ref::Decoded> dec; { size_t p = 0; const uint8_t *b = (const uint8_t*)tx.data(); while (p < tx.size()) { ref::Decoded d = ref::dec8(b + p, tx.size() - p, p); dec.push_back(d); p += d.units; } }
        int ng = gr_face_n_glyphs(f);
        // premise of the gid clause: the font names only real glyphs.  The cmap is such a place too (C13 makes the cmap's answer the initial glyph, whatever it is):
        // a text one of whose characters the font's own cmap (reference reader) sends to a glyph id >= n_glyphs is outside the clause
        { struct Prem { TableSet ts; ref::CmapRef cr; bool ok = false; }; static std::map<gr_face*, Prem> prem; auto it = prem.find(f);
          if (it == prem.end()) { Prem &p = prem[f]; p.ts.from_file(g_fonts[c.font]); auto cm = p.ts.t.find(mktag("cmap")); if (cm != p.ts.t.end()) { p.cr.choose(cm->second); p.ok = true; } it = prem.find(f); }
          if (it->second.ok) for (auto &d : dec) if (d.ok && int(it->second.cr.lookup(d.usv)) >= ng) { ng = -1; ctl.counters[1] = ctl.counters[1] + 1; break; } }
        for (int dir = 0; dir < 8; ++dir) for (int wf = 0; wf < (dir < 2 ? 2 : 1); ++wf) { gr_segment *s = gr_make_seg(wf ? font : nullptr, f, 0, nullptr, gr_utf8, tx.c_str(), dec.size(), dir); ctl.counters[0] = ctl.counters[0] + 1; if (!s) continue;
            SegExpect e; e.nchars = dec.size(); e.chars = &dec; e.strict_chars = true; e.n_glyphs = ng; std::vector<SegViolation> v; check_segment(s, e, v);
            if (gr_seg_n_slots(s) > 64 * (dec.empty() ? 1 : dec.size())) { JObj o; o.kv("prop", "C02").kv("kind", "slot_cap_exceeded").kv("font", g_fonts[c.font]).kv("text_utf8_hex", hex(tx.data(), tx.size())).kv("dir", dir); report_fail(i, o); }
            for (auto &x : v) { JObj o; o.kv("prop", x.prop).kv("kind", "structural_invariant").kv("what", x.what).kv("font", g_fonts[c.font]).kv("text_utf8_hex", hex(tx.data(), tx.size())).kv("dir", dir).kv("with_font", wf); report_fail(i, o); break; }
            touch_all_queries(s, f, wf ? font : nullptr, 4);
            if (wf == 0 && dir < 2) { SegDumpOpts o; o.positions = false; o.attrs = false; ctl.cls(hash_str(dump_segment(s, o))); }
            gr_seg_destroy(s); } };
}

// ---- encodings: UTF-16 and UTF-32 input (the corpora and the program families feed UTF-8): every unit sequence of length 1..4 over alphabets with paired, unpaired and
// reversed surrogates / out-of-range values; the char-infos must be the reference decoding (one U+FFFD per ill-formed unit) with code-unit offsets as bases
struct ECase { int font, enc; uint32_t code; int len; }; static std::vector<ECase> g_enc; static std::vector<std::string> g_efonts;
static const uint32_t A8[13] = { 0x41, 0x80, 0xBF, 0xC3, 0xE2, 0xF0, 0xF4, 0xF8, 0xF9, 0xFC, 0xFF, 0x90, 0x8F };
static const uint32_t A16[7] = { 0x41, 0x62, 0xD83D, 0xDE00, 0xD800, 0xDFFF, 0xFFFF }, A32[6] = { 0x41, 0x62, 0x1F600, 0x10FFFF, 0x110000, 0xFFFFFFFFu };
static void setup_enc(Runner &r, const Tier &) {
    g_enc.clear(); g_efonts = { gen_dir() + "/s_full.ttf", "Padauk.ttf" };
    for (int f = 0; f < int(g_efonts.size()); ++f) for (int enc = 0; enc < 3; ++enc) { int na = enc == 0 ? 7 : enc == 1 ? 6 : 13; if (enc == 2 && f) continue; for (int L = 1; L <= 4; ++L) { uint32_t n = 1; for (int k = 0; k < L; ++k) n *= na; for (uint32_t c = 0; c < n; ++c) g_enc.push_back({ f, enc, c, L }); } }
    r.ncases = g_enc.size(); r.case_alarm_s = 60; r.shard_init = [](int) { g_fc = new FaceCache; };
    r.describe = [](uint64_t i) { const ECase &c = g_enc[i]; JObj o; o.kv("font", g_efonts[c.font]).kv("encoding", c.enc == 0 ? "utf16" : "utf32").kv("length", c.len).kv("sequence_code", (unsigned long long)c.code).kv("dirs", "0,1"); return o; };
    r.body = [](uint64_t i, ShardCtl &ctl) { const ECase &c = g_enc[i]; gr_face *f = g_fc->get(g_efonts[c.font], gr_face_preloadAll); if (!f) return;
        std::vector<uint32_t> u; { uint32_t x = c.code; int na = c.enc == 0 ? 7 : c.enc == 1 ? 6 : 13; for (int k = 0; k < c.len; ++k) { u.push_back(c.enc == 0 ? A16[x % na] : c.enc == 1 ? A32[x % na] : A8[x % na]); x /= na; } }
        if (c.enc == 2) {   // UTF-8 with ill-formed bytes: how many bytes one ill-formed sequence swallows is not specified, so the oracle is weaker:
            // every char-info either reports U+FFFD or exactly the scalar that strict decoding yields AT ITS BASE OFFSET; bases increase and stay inside the text
            std::vector<uint8_t> b8; for (uint32_t v : u) b8.push_back(uint8_t(v)); size_t n8 = b8.size(); b8.push_back(0); b8.push_back(0); b8.push_back(0); b8.push_back(0);
            for (int dir = 0; dir < 2; ++dir) { gr_segment *s = gr_make_seg(nullptr, f, 0, nullptr, gr_utf8, b8.data(), n8, dir); ctl.counters[0] = ctl.counters[0] + 1; if (!s) continue; const char *why = nullptr; char detail[160] = "";
                unsigned nc = gr_seg_n_cinfo(s); size_t prev = 0;
                for (unsigned k = 0; k < nc && !why; ++k) { const gr_char_info *ci = gr_seg_cinfo(s, k); size_t base = gr_cinfo_base(ci); uint32_t uc = gr_cinfo_unicode_char(ci);
                    if (base >= n8 || (k && base <= prev)) { why = "char-info base outside the text or not increasing"; snprintf(detail, sizeof detail, "cinfo %u base %zu", k, base); break; } prev = base;
                    if (uc != 0xFFFD) { ref::Decoded d = ref::dec8(&b8[base], n8 - base, base); if (!d.ok || d.usv != uc) { why = "char-info reports a scalar that strict UTF-8 decoding at its base offset does not yield"; snprintf(detail, sizeof detail, "cinfo %u base %zu U+%04X", k, base, uc); } } }
                if (why) { JObj o; o.kv("prop", "C05").kv("kind", "structural_invariant").kv("what", why).kv("detail", detail).kv("font", g_efonts[c.font]).kv("encoding", "utf8").kv("units_hex", hex(b8.data(), n8)).kv("dir", dir); report_fail(i, o); }
                gr_seg_destroy(s); }
            ctl.cls(uint64_t(2) * 1000003 + c.code * 7 + c.len); return; }
        std::vector<uint16_t> b16; std::vector<uint32_t> b32; std::vector<ref::Decoded> dec;
        if (c.enc == 0) { for (uint32_t v : u) b16.push_back(uint16_t(v)); size_t p = 0; while (p < b16.size()) { ref::Decoded d = ref::dec16(&b16[p], b16.size() - p, p); dec.push_back(d); p += d.units; } b16.push_back(0); b16.push_back(0); }
        else { b32 = u; size_t p = 0; while (p < b32.size()) { ref::Decoded d = ref::dec32(&b32[p], b32.size() - p, p); dec.push_back(d); p += d.units; } b32.push_back(0); b32.push_back(0); }
        for (int dir = 0; dir < 2; ++dir) { gr_segment *s = gr_make_seg(nullptr, f, 0, nullptr, c.enc == 0 ? gr_utf16 : gr_utf32, c.enc == 0 ? (const void*)b16.data() : (const void*)b32.data(), dec.size(), dir); ctl.counters[0] = ctl.counters[0] + 1; if (!s) continue;
            SegExpect e; e.nchars = dec.size(); e.chars = &dec; e.strict_chars = true; e.n_glyphs = gr_face_n_glyphs(f); std::vector<SegViolation> v; check_segment(s, e, v);
            for (auto &x : v) { JObj o; o.kv("prop", x.prop).kv("kind", "structural_invariant").kv("what", x.what).kv("font", g_efonts[c.font]).kv("encoding", c.enc == 0 ? "utf16" : "utf32").kv("units_hex", c.enc == 0 ? hex(b16.data(), (b16.size() - 2) * 2) : hex(b32.data(), (b32.size() - 2) * 4)).kv("dir", dir); report_fail(i, o); break; }
            gr_seg_destroy(s); }
        ctl.cls(uint64_t(c.enc) * 1000003 + c.code * 7 + c.len); };
}
int main(int argc, char **argv) { std::vector<Sub> subs; { Sub s; s.name = "shipped_corpora"; s.setup = setup; s.budget_quick = 140; s.budget_thorough = 1200; s.counter_names = { "segments_on_accepted_mutants", "texts_outside_the_gid_clause_cmap_names_a_missing_glyph" }; subs.push_back(s); } { Sub s; s.name = "encodings"; s.setup = setup_enc; s.budget_quick = 60; s.budget_thorough = 120; s.counter_names = { "segments" }; subs.push_back(s); } return check_main(argc, argv, "C03c", subs); }
