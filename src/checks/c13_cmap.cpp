// C13: characters map to the glyphs the cmap assigns, by either lookup path.
// For every font variant, EVERY code point 0..0x110010 through DirectCmap and CachedCmap is compared with a
// reference lookup written from the OpenType spec; gr_face_is_char_supported is compared with reference||pseudo.
#include "common/check_main.hpp"
#include "common/fonts.hpp"
#include "ref/cmap_ref.hpp"
#include "inc/Face.h"
#include "inc/CmapCache.h"
using namespace vf;

struct Variant { std::string name; bool shipped; Bytes cmap; };
static std::vector<Variant> g_var;
static TableSet g_base;                       // small.ttf tables, cmap replaced per variant

// ---------- structure-space generators ----------
static void add_terminator(std::vector<ref::Seg4> &s, int ffff_mode) {
    // 0: standard terminator FFFF->gid 0 ; 1: U+FFFF mapped to glyph 2 ; 2: a real segment FFF0..FFFF
    if (ffff_mode == 0) s.push_back({ 0xFFFF, 0xFFFF, 1, false, {} });
    else if (ffff_mode == 1) s.push_back({ 0xFFFF, 0xFFFF, uint16_t(2 - 0xFFFF), false, {} });
    else s.push_back({ 0xFFF0, 0xFFFF, uint16_t(0x0100 - 0xFFF0), false, {} });
}
static std::vector<ref::Seg4> fmt4_family(int nseg, int mode, int ffff_mode) {
    // segment starts emphasise cache-block edges (xxFF/xx00) and adjacency; lengths cycle through 1,2,3,0x101,0x1FF
    std::vector<ref::Seg4> s; static const unsigned lens[5] = { 1, 2, 3, 0x101, 0x1FF }; static const unsigned lens_many[5] = { 1, 2, 3, 0x21, 0x101 };
    unsigned cp = 0x20; size_t arr_total = 0;
    for (int i = 0; i < nseg; ++i) {
        unsigned len = nseg > 17 ? lens_many[i % 5] : lens[i % 5];
        if (arr_total > 12000 && len > 3) len = 3;
        unsigned start = (i % 4 == 0) ? cp : (i % 4 == 1) ? ((cp | 0xFF)) : (i % 4 == 2) ? ((cp | 0xFF) + 1) : cp;   // in-block, at xxFF, at xx00, adjacent to previous
        if (start + len >= 0xFFE0) break;
        ref::Seg4 g; g.start = start; g.end = start + len - 1;
        int m = mode == 3 ? i % 3 : mode;
        if (m == 0) { g.delta = uint16_t(3 + i - start); g.use_array = false; }
        else if (m == 1) { g.delta = uint16_t(0xFFF0 + i); g.use_array = false; }            // start+delta wraps past 65535
        else { g.delta = uint16_t(i & 1 ? 5 : 0); g.use_array = true; for (unsigned k = 0; k < len; ++k) g.arr.push_back(k % 4 == 3 ? 0 : uint16_t(0x10 + k + i)); arr_total += len; }   // zero entries = unmapped
        s.push_back(g);
        cp = g.end + 1 + ((i % 4 == 2) ? 0 : (i * 37 % (nseg > 17 ? 64 : 300)));
    }
    add_terminator(s, ffff_mode);
    return s;
}
static std::vector<ref::Grp12> fmt12_family(int kind) {
    std::vector<ref::Grp12> g;
    switch (kind) {
    case 1: g.push_back({ 0x10000, 0x10002, 7 }); break;
    case 2: g.push_back({ 0xFFFE, 0x10001, 7 }); g.push_back({ 0x1FFFE, 0x20001, 20 }); break;        // straddles plane edges, includes BMP code points
    case 3: g.push_back({ 0x61, 0x64, 9 }); g.push_back({ 0xFFFF, 0xFFFF, 5 }); g.push_back({ 0x10000, 0x100FF, 30 }); g.push_back({ 0x10100, 0x10100, 600 }); g.push_back({ 0x10FFFE, 0x10FFFF, 3 }); break;
    case 4: for (unsigned i = 0; i < 300; ++i) g.push_back({ 0x10000 + i * 0x100 + (i % 3 ? 0xFF : 0), 0x10000 + i * 0x100 + (i % 3 ? 0xFF : 0) + (i % 5 == 0 ? 1 : 0), 100 + i }); break;
    case 5: g.push_back({ 0x10FFFF, 0x10FFFF, 3 }); break;
    case 6: g.push_back({ 0x20, 0xFFFF, 1000 }); g.push_back({ 0x20000, 0x2FFFF, 1 }); break;         // whole BMP also in fmt 12, gid wraps 16 bit
    }
    return g;
}
static Bytes simple_fmt4(uint16_t gid_for_A) {
    std::vector<ref::Seg4> s; s.push_back({ 0x41, 0x5A, uint16_t(gid_for_A - 0x41), false, {} }); add_terminator(s, 0); return ref::build_fmt4(s);
}

static void build_variants(bool thorough) {
    g_var.clear();
    for (auto &sf : shipped_fonts()) { Variant v; v.name = sf.file; v.shipped = true; g_var.push_back(v); }
    static const int nsegs[5] = { 1, 2, 3, 17, 256 };
    for (int ns : nsegs) for (int mode = 0; mode < 4; ++mode) for (int ff = 0; ff < 3; ++ff) for (int k12 = 0; k12 <= 6; ++k12) {
        // fmt 4 and fmt 12 only interact through BMP entries of the fmt 12 table: full cross product with kinds 0 and 3,
        // the other fmt 12 kinds with three fmt 4 picks (quick) / everything (thorough)
        if (!thorough && !(k12 == 0 || k12 == 3) && !((ns == 3 && mode == 3 && ff == 0) || (ns == 17 && mode == 2 && ff == 1) || (ns == 256 && mode == 0 && ff == 2))) continue;
        Variant v; v.shipped = false; v.name = "syn seg=" + std::to_string(ns) + " mode=" + std::to_string(mode) + " ffff=" + std::to_string(ff) + " fmt12=" + std::to_string(k12);
        std::vector<ref::EncRec> recs; recs.push_back({ 3, 1, ref::build_fmt4(fmt4_family(ns, mode, ff)) });
        if (k12) recs.push_back({ 3, 10, ref::build_fmt12(fmt12_family(k12)) });
        v.cmap = ref::build_cmap(recs); g_var.push_back(v);
    }
    // first segment starting at U+0000 (1, 2 and 9 code points) and closing segments of several lengths that carry real mappings
    for (unsigned zlen : { 1u, 2u, 9u }) for (unsigned tail : { 1u, 2u, 4u, 0x20u, 0x101u }) for (int arr = 0; arr < 2; ++arr) {
        Variant v; v.shipped = false; v.name = "syn zero-start len=" + std::to_string(zlen) + " tail=" + std::to_string(tail) + (arr ? " array" : " delta");
        std::vector<ref::Seg4> sg; ref::Seg4 a; a.start = 0; a.end = zlen - 1; a.use_array = arr != 0; a.delta = arr ? 0 : 3; if (arr) for (unsigned k = 0; k < zlen; ++k) a.arr.push_back(uint16_t(3 + k)); sg.push_back(a);
        sg.push_back({ 0x20, 0x7E, uint16_t(20 - 0x20), false, {} });
        ref::Seg4 z; z.start = 0x10000 - tail; z.end = 0xFFFF; z.use_array = arr != 0; z.delta = arr ? 0 : uint16_t(0x200 - z.start); if (arr) for (unsigned k = 0; k < tail; ++k) z.arr.push_back(uint16_t(0x200 + k)); sg.push_back(z);
        std::vector<ref::EncRec> recs; recs.push_back({ 3, 1, ref::build_fmt4(sg) }); v.cmap = ref::build_cmap(recs); g_var.push_back(v);
    }
    // large glyphIdArray: the idRangeOffset of the segments after a 16 K .. 32 K entry array crosses 0x8000 (it is an UNSIGNED 16-bit byte offset)
    for (unsigned big : { 16379u, 16380u, 16381u, 16382u, 16383u, 16384u, 20992u, 32000u }) {
        Variant v; v.shipped = false; v.name = "syn large-array entries=" + std::to_string(big);
        std::vector<ref::Seg4> sg; ref::Seg4 a; a.start = 0x4E00; a.end = uint16_t(0x4E00 + big - 1); a.use_array = true; a.delta = 0; for (unsigned k = 0; k < big; ++k) a.arr.push_back(uint16_t(k % 7 == 6 ? 0 : 1 + k % 500)); sg.push_back(a);
        ref::Seg4 b; b.start = 0xE000; b.end = 0xE07F; b.use_array = true; b.delta = 3; for (unsigned k = 0; k < 0x80; ++k) b.arr.push_back(uint16_t(200 + k)); sg.push_back(b);
        ref::Seg4 c; c.start = 0xF000; c.end = 0xF0FF; c.use_array = true; c.delta = 0; for (unsigned k = 0; k < 0x100; ++k) c.arr.push_back(uint16_t(k % 3 ? 10 + k : 0)); sg.push_back(c);
        add_terminator(sg, 0);
        std::vector<ref::EncRec> recs; recs.push_back({ 3, 1, ref::build_fmt4(sg) }); v.cmap = ref::build_cmap(recs); g_var.push_back(v);
    }
    // subtables stored in the opposite order of their encoding records (format 12 data before format 4 data)
    for (int k12 : { 1, 3 }) for (int ns : { 2, 17 }) { Variant v; v.shipped = false; v.name = "syn reversed-data seg=" + std::to_string(ns) + " fmt12=" + std::to_string(k12);
        std::vector<ref::EncRec> recs; recs.push_back({ 3, 1, ref::build_fmt4(fmt4_family(ns, 3, 0)) }); recs.push_back({ 3, 10, ref::build_fmt12(fmt12_family(k12)) }); v.cmap = ref::build_cmap(recs, true); g_var.push_back(v); }
    // encoding-record preference: every presence combination, each subtable mapping 'A' to a different glyph
    static const int bmp[5][2] = { {0,0}, {0,1}, {0,2}, {0,3}, {3,1} };      // already sorted by (platform, encoding)
    for (int mask = 1; mask < 32; ++mask) for (int sm = 0; sm < 4; ++sm) {
        Variant v; v.shipped = false; v.name = "pref bmpmask=" + std::to_string(mask) + " smp=" + std::to_string(sm);
        std::vector<ref::EncRec> recs;
        for (int i = 0; i < 4; ++i) if (mask & (1 << i)) recs.push_back({ bmp[i][0], bmp[i][1], simple_fmt4(uint16_t(10 + i)) });
        if (sm & 1) recs.push_back({ 0, 4, ref::build_fmt12({ { 0x10000, 0x10003, 40 } }) });
        if (mask & 16) recs.push_back({ 3, 1, simple_fmt4(14) });
        if (sm & 2) recs.push_back({ 3, 10, ref::build_fmt12({ { 0x10000, 0x10003, 50 } }) });
        v.cmap = ref::build_cmap(recs); g_var.push_back(v);
    }
}

// ---------- per-child face cache ----------
struct Loaded { TableSet ts; MemFace mf; gr_face *face[2] = { nullptr, nullptr }; ref::CmapRef cr; std::map<uint32_t, uint16_t> pseudo; bool have_pseudo = false; bool init = false; };
static std::map<int, Loaded*> g_loaded;
static Loaded *get(int vi) {
    auto it = g_loaded.find(vi); if (it != g_loaded.end()) return it->second;
    // keep at most a few fonts alive per child
    if (g_loaded.size() > 3) { for (auto &kv : g_loaded) { for (int k = 0; k < 2; ++k) if (kv.second->face[k]) gr_face_destroy(kv.second->face[k]); delete kv.second; } g_loaded.clear(); }
    Loaded *L = new Loaded; const Variant &v = g_var[vi];
    if (v.shipped) L->ts.from_file(font_path(v.name)); else { L->ts = g_base; L->ts.t[mktag("cmap")] = v.cmap; }
    L->mf.ts = &L->ts;
    L->face[0] = L->mf.make(gr_face_default); L->face[1] = L->mf.make(gr_face_cacheCmap);
    L->cr.choose(L->ts.t[mktag("cmap")]);
    auto s = L->ts.t.find(mktag("Silf")); if (s != L->ts.t.end()) L->have_pseudo = ref::silf_pseudos(s->second, L->pseudo);
    g_loaded[vi] = L; return L;
}

static const int NBLK = 18;   // 17 planes + the 17 code points above U+10FFFF
static void setup(Runner &r, const Tier &t) {
    g_base.from_file(font_path("small.ttf"));
    build_variants(t.thorough);
    r.ncases = uint64_t(g_var.size()) * NBLK; r.case_alarm_s = 120;
    r.describe = [](uint64_t i) { int vi = int(i / NBLK), blk = int(i % NBLK); JObj o; o.kv("font", g_var[vi].name).kv("plane", blk).kv("paths", "direct+cached"); return o; };
    r.body = [](uint64_t i, ShardCtl &c) {
        int vi = int(i / NBLK), blk = int(i % NBLK); Loaded *L = get(vi);
        if (!L->face[0] && !L->face[1]) { c.cls(1); c.counters[3] = c.counters[3] + (blk == 0); return; }     // font not accepted (e.g. tiny.ttf): nothing to compare
        uint32_t lo = uint32_t(blk) << 16, hi = blk == 17 ? 0x110011 : lo + 0x10000;
        unsigned bad = 0; uint64_t h = 0;
        static std::vector<uint16_t> refv; refv.assign(hi - lo, 0); L->cr.lookup_range(lo, hi, refv.data());
        for (int path = 0; path < 2; ++path) {
            gr_face *f = L->face[path];
            if (!f) { if (blk == 0) { JObj o; o.kv("font", g_var[vi].name).kv("kind", "face_loads_with_one_option_only").kv("path", path); report_fail(i, o); } continue; }
            const graphite2::Face *F = static_cast<const graphite2::Face*>(f);
            for (uint32_t cp = lo; cp < hi; ++cp) {
                uint16_t want = refv[cp - lo], got = F->cmap()[cp];
                h = h * 1099511628211ULL + want;
                if (got != want && bad++ < 3) { JObj o; o.kv("font", g_var[vi].name).kv("kind", "cmap_lookup").kv("path", path ? "cached" : "direct").kv("usv", (unsigned long long)cp).kv("got", got).kv("want", want); report_fail(i, o); }
                if (L->have_pseudo) {
                    bool sup = want != 0 || (!L->pseudo.empty() && L->pseudo.count(cp)); bool g2 = gr_face_is_char_supported(f, cp, 0) != 0;
                    if (sup != g2 && bad++ < 3) { JObj o; o.kv("font", g_var[vi].name).kv("kind", "is_char_supported").kv("path", path ? "cached" : "direct").kv("usv", (unsigned long long)cp).kv("got", g2).kv("want", sup); report_fail(i, o); }
                    c.counters[1] = c.counters[1] + 1;
                }
                if (want) c.counters[2] = c.counters[2] + 1;
            }
            c.counters[0] = c.counters[0] + (hi - lo);
        }
        c.cls(h | 1);
    };
}

static void extra13(const Runner &r, JObj &o) { o.kv("states", (unsigned long long)r.total_done).kv("transitions", (unsigned long long)r.counters[0]).kv("validated", (unsigned long long)r.counters[0]); }
int main(int argc, char **argv) {
    std::vector<Sub> subs;
    { Sub s; s.extra = extra13; s.name = "all_codepoints"; s.setup = setup; s.budget_quick = 120; s.budget_thorough = 900; s.counter_names = { "lookups", "is_char_supported_calls", "mapped_lookups", "fonts_not_accepted" }; subs.push_back(s); }
    return check_main(argc, argv, "C13", subs);
}
