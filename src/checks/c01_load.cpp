// C01: font loading is total and memory-safe.  Deviation-bounded enumeration around well-formed seeds:
//  bytes      every byte of every table of the small seeds x all 255 other values x options {0,7}
//  fields     every structural field (generator field map; first 48 header bytes for shipped fonts) x boundary value set
//  pairs      (thorough) all pairs of fields of one table x 6 values
//  truncation every prefix length of every table, table absent, trailing garbage
//  container  sfnt header/directory bytes through gr_make_file_face
// Every mutant that the real loader ACCEPTS is also queried completely and shaped (C02..C05 oracles, reported under those ids).
#include "common/check_main.hpp"
#include "common/fonts.hpp"
#include "common/segcheck.hpp"
#include <fcntl.h>
#include <algorithm>
using namespace vf;

struct Seed { std::string name, path; TableSet ts; std::vector<uint32_t> tags; std::vector<std::vector<uint32_t>> fields;   /* per tag: packed (offset<<8 | width) */ bool small; };
static std::vector<Seed> g_seeds; static bool g_thor;
static const char *TX[4] = { "ab", "ba c", "a\xCC\x81" "de", "" };

static ShardCtl *g_cctl = nullptr; static uint64_t g_curidx = 0; static std::string g_curdesc;
extern "C" void graphite2_verif_pass_loop(const void *, unsigned long iterations, unsigned maxloop, unsigned long slots, long budget, int at_exit) {
    if (!at_exit) { JObj o; o.kv("prop", "C02").kv("kind", "loop_bound_exceeded").kv("iterations", (unsigned long long)iterations).kv("maxloop", maxloop).kv("slots_at_start", (unsigned long long)slots).kv("insert_budget", (long long)budget).kv("mutant", g_curdesc); report_fail(g_curidx, o); fflush(stdout); _exit(77); }
}

// minimal JSON number-array reader for the generator's field map: [["Silf", off, width, "kind"], ...]
static void load_fields(Seed &s, const std::string &path) {
    Bytes d; if (!read_file(path, d)) return; std::string j(d.begin(), d.end()); size_t p = 0;
    while ((p = j.find("[\"", p)) != std::string::npos) { size_t q = j.find('"', p + 2); std::string tag = j.substr(p + 2, q - p - 2); long off = strtol(j.c_str() + q + 2, nullptr, 10); size_t c = j.find(',', q + 2); long w = strtol(j.c_str() + c + 1, nullptr, 10);
        while (tag.size() < 4) tag += ' '; uint32_t t = mktag(tag.c_str()); for (size_t k = 0; k < s.tags.size(); ++k) if (s.tags[k] == t) s.fields[k].push_back(uint32_t(off) << 8 | uint32_t(w)); p = q; }
}
static void load_seeds(bool thorough) {
    g_seeds.clear(); g_thor = thorough;
    auto add = [&](const std::string &name, const std::string &path, bool small, const std::string &fieldmap) { Seed s; s.name = name; s.path = path; s.small = small; if (!s.ts.from_file(path)) return; for (auto &kv : s.ts.t) s.tags.push_back(kv.first); s.fields.resize(s.tags.size());
        if (!fieldmap.empty()) load_fields(s, fieldmap);
        for (size_t k = 0; k < s.tags.size(); ++k) if (s.fields[k].empty()) { size_t n = s.ts.t[s.tags[k]].size(); for (size_t o = 0; o + 2 <= n && o < 48; o += 2) s.fields[k].push_back(uint32_t(o) << 8 | 2); }
        g_seeds.push_back(s); };
    add("small.ttf", font_path("small.ttf"), true, "");
    for (const char *g : { "s_min", "s_full", "s_full_z", "s_full_v3", "s_full_v4", "feat_v1_mixed" }) add(std::string(g) + ".ttf", gen_dir() + "/" + g + ".ttf", std::string(g) == "s_min" || thorough, gen_dir() + "/" + g + ".fields.json");
    for (const char *f : { "Padauk.ttf", "Scheherazadegr.ttf", "Awami_test.ttf", "Awami_compressed_test.ttf", "charis_r_gr.ttf" }) if (thorough || std::string(f) == "Padauk.ttf") add(f, font_path(f), false, "");
}

// the oracle for one mutant table set
static void try_font(uint64_t idx, const TableSet &ts, unsigned opts, ShardCtl &ctl, const std::string &desc, bool shape) {
    g_curidx = idx; g_curdesc = desc; g_cctl = &ctl;
    size_t bal0 = allocated_bytes(); const char *why = nullptr; std::string prop = "C01";
    {
        MemFace mf; mf.ts = &ts; std::vector<uint32_t>().swap(mf.log_get);
        gr_face *f = mf.make(opts); ctl.counters[0] = ctl.counters[0] + 1;
        if (!f) { if (!mf.outstanding.empty()) why = "tables still borrowed after a failed load"; }
        else {
            ctl.counters[1] = ctl.counters[1] + 1;
            std::string fd = dump_face(f); ctl.cls(hash_str(fd));
            if (shape) {
                gr_font *font = gr_make_font(10.f, f);
                for (const char *t : TX) for (int dir : { 0, 1, 3 }) { gr_segment *s = gr_make_seg(dir == 0 ? font : nullptr, f, 0, nullptr, gr_utf8, t, utf8_count(t), dir); ctl.counters[2] = ctl.counters[2] + 1; if (!s) continue;
                    SegExpect e; e.nchars = utf8_count(t); std::vector<SegViolation> v; check_segment(s, e, v);
                    if (gr_seg_n_slots(s) > 64 * (e.nchars ? e.nchars : 1)) { JObj o; o.kv("prop", "C02").kv("kind", "slot_cap_exceeded").kv("mutant", desc); report_fail(idx, o); }
                    for (auto &x : v) { JObj o; o.kv("prop", x.prop).kv("kind", "structural_invariant").kv("what", x.what).kv("mutant", desc).kv("text", t).kv("dir", dir); report_fail(idx, o); break; }
                    touch_all_queries(s, f, font, 3);      // after the structural verdicts are recorded: a sanitizer stop in a query must not hide them
                    gr_seg_destroy(s); }
                gr_font_destroy(font);
            }
            gr_face_destroy(f);
            if (!mf.outstanding.empty()) why = "tables still borrowed after gr_face_destroy";
        }
        if (mf.bad_release) why = "release_table called with a pointer that is not outstanding";
        mf.drop_outstanding(); std::vector<uint32_t>().swap(mf.log_get);
    }
    size_t bal1 = allocated_bytes(); if (!why && bal1 != bal0) why = "memory still allocated after the face was destroyed";
    if (why) { JObj o; o.kv("prop", prop).kv("also", "C16").kv("kind", "load_contract").kv("why", why).kv("mutant", desc).kv("options", opts); report_fail(idx, o); }      // release discipline / allocation balance: C01 and C16 both state it
}
static std::string mdesc(const Seed &s, uint32_t tag, size_t off, unsigned width, uint64_t val) { char b[200]; snprintf(b, sizeof b, "%s %s@%zu/%u=%llx", s.name.c_str(), tagstr(tag).c_str(), off, width, (unsigned long long)val); return b; }

// ---- bytes ----
struct BytePos { int seed; int tag; uint32_t off; }; static std::vector<BytePos> g_bp;
static void setup_bytes(Runner &r, const Tier &t) {
    load_seeds(t.thorough); g_bp.clear();
    for (int si = 0; si < int(g_seeds.size()); ++si) { if (!g_seeds[si].small) continue; for (int ti = 0; ti < int(g_seeds[si].tags.size()); ++ti) { size_t n = g_seeds[si].ts.t[g_seeds[si].tags[ti]].size(); for (uint32_t o = 0; o < n; ++o) g_bp.push_back({ si, ti, o }); } }
    r.ncases = g_bp.size(); r.case_alarm_s = 120;
    r.describe = [](uint64_t i) { const BytePos &b = g_bp[i]; const Seed &s = g_seeds[b.seed]; JObj o; o.kv("seed", s.name).kv("table", tagstr(s.tags[b.tag])).kv("offset", b.off).kv("values", "all 255 other byte values x options {0,7}"); return o; };
    r.body = [](uint64_t i, ShardCtl &c) { const BytePos &b = g_bp[i]; const Seed &s = g_seeds[b.seed]; TableSet ts = s.ts; Bytes &tb = ts.t[s.tags[b.tag]]; uint8_t orig = tb[b.off];
        for (int v = 0; v < 256; ++v) { if (v == orig) continue; tb[b.off] = uint8_t(v); for (unsigned o : { 0u, 7u }) try_font(i, ts, o, c, mdesc(s, s.tags[b.tag], b.off, 1, v), o == 0); } };
}
// ---- fields ----
static std::vector<uint64_t> field_values(uint64_t orig, unsigned width, size_t table_len, size_t remaining) {
    uint64_t mx = width >= 4 ? 0xFFFFFFFFULL : (1ULL << (8 * width)) - 1; std::set<uint64_t> v = { 0, 1, orig + 1, orig - 1, orig + 2, orig - 2, orig / 2, orig * 2, 0x7F, 0x80, 0xFF, 0x100, 0x7FFF, 0x8000, 0xFFFF, mx - 1, mx, mx / 2, mx / 2 + 1, table_len, table_len + 1, table_len - 1, remaining, remaining + 1, remaining - 1 };
    std::vector<uint64_t> out; for (uint64_t x : v) { x &= mx; if (x != orig) out.push_back(x); } std::sort(out.begin(), out.end()); out.erase(std::unique(out.begin(), out.end()), out.end()); return out;
}
static uint64_t rdbe(const Bytes &b, size_t o, unsigned w) { uint64_t v = 0; for (unsigned k = 0; k < w; ++k) v = (v << 8) | b[o + k]; return v; }
static void wrbe(Bytes &b, size_t o, unsigned w, uint64_t v) { for (unsigned k = 0; k < w; ++k) b[o + k] = uint8_t(v >> (8 * (w - 1 - k))); }
struct FieldPos { int seed, tag; uint32_t off; uint8_t w; }; static std::vector<FieldPos> g_fp;
static void setup_fields(Runner &r, const Tier &t) {
    load_seeds(t.thorough); g_fp.clear();
    for (int si = 0; si < int(g_seeds.size()); ++si) for (int ti = 0; ti < int(g_seeds[si].tags.size()); ++ti) { size_t n = g_seeds[si].ts.t[g_seeds[si].tags[ti]].size(); for (uint32_t f : g_seeds[si].fields[ti]) { uint32_t o = f >> 8; uint8_t w = f & 0xFF; if (o + w <= n && w >= 1 && w <= 4) g_fp.push_back({ si, ti, o, w }); } }
    r.ncases = g_fp.size(); r.case_alarm_s = 300;
    r.describe = [](uint64_t i) { const FieldPos &f = g_fp[i]; const Seed &s = g_seeds[f.seed]; JObj o; o.kv("seed", s.name).kv("table", tagstr(s.tags[f.tag])).kv("offset", f.off).kv("width", f.w).kv("values", "boundary set (0,1,orig+-1,+-2,half,double,7F,80,FF,..,max,table length+-1,remaining+-1) x options {0,7}"); return o; };
    r.body = [](uint64_t i, ShardCtl &c) { const FieldPos &f = g_fp[i]; const Seed &s = g_seeds[f.seed]; TableSet ts = s.ts; Bytes &tb = ts.t[s.tags[f.tag]]; uint64_t orig = rdbe(tb, f.off, f.w);
        for (uint64_t v : field_values(orig, f.w, tb.size(), tb.size() - f.off)) { wrbe(tb, f.off, f.w, v); for (unsigned o : { 0u, 7u }) try_font(i, ts, o, c, mdesc(s, s.tags[f.tag], f.off, f.w, v), o == 0 && s.ts.t.begin()->second.size() < (1u << 20)); } };
}
// ---- pairs (thorough) ----
struct PairPos { int seed, tag; uint32_t a, b; }; static std::vector<PairPos> g_pp;
static void setup_pairs(Runner &r, const Tier &t) {
    load_seeds(t.thorough); g_pp.clear();
    for (int si = 0; si < int(g_seeds.size()); ++si) { if (g_seeds[si].name != "s_min.ttf" && g_seeds[si].name != "small.ttf" && !(t.thorough && g_seeds[si].name == "s_full.ttf")) continue;
        for (int ti = 0; ti < int(g_seeds[si].tags.size()); ++ti) { auto &F = g_seeds[si].fields[ti]; size_t lim = t.thorough ? 70 : 28; for (size_t a = 0; a < F.size() && a < lim; ++a) for (size_t b = a + 1; b < F.size() && b < lim; ++b) g_pp.push_back({ si, ti, F[a], F[b] }); } }
    r.ncases = g_pp.size(); r.case_alarm_s = 300;
    r.describe = [](uint64_t i) { const PairPos &p = g_pp[i]; const Seed &s = g_seeds[p.seed]; JObj o; o.kv("seed", s.name).kv("table", tagstr(s.tags[p.tag])).kv("field_a_offset", p.a >> 8).kv("field_b_offset", p.b >> 8).kv("values", "6x6 boundary values"); return o; };
    r.body = [](uint64_t i, ShardCtl &c) { const PairPos &p = g_pp[i]; const Seed &s = g_seeds[p.seed]; TableSet ts = s.ts; Bytes &tb = ts.t[s.tags[p.tag]]; unsigned wa = p.a & 0xFF, wb = p.b & 0xFF; size_t oa = p.a >> 8, ob = p.b >> 8; if (oa + wa > tb.size() || ob + wb > tb.size()) return;
        uint64_t A = rdbe(tb, oa, wa), B = rdbe(tb, ob, wb); auto six = [&](uint64_t o, unsigned w) { uint64_t mx = w >= 4 ? 0xFFFFFFFFULL : (1ULL << (8 * w)) - 1; return std::vector<uint64_t>{ 0, (o + 1) & mx, (o - 1) & mx, mx, mx / 2 + 1, (o * 2) & mx }; };
        for (uint64_t va : six(A, wa)) for (uint64_t vb : six(B, wb)) { wrbe(tb, oa, wa, va); wrbe(tb, ob, wb, vb); try_font(i, ts, 0, c, mdesc(s, s.tags[p.tag], oa, wa, va) + "+" + std::to_string(ob) + "=" + std::to_string(vb), true); } };
}
// ---- truncation ----
struct TruncPos { int seed, tag; int kind; uint32_t len; }; static std::vector<TruncPos> g_tp;   // kind 0 prefix, 1 absent, 2 garbage appended
static void setup_trunc(Runner &r, const Tier &t) {
    load_seeds(t.thorough); g_tp.clear();
    for (int si = 0; si < int(g_seeds.size()); ++si) for (int ti = 0; ti < int(g_seeds[si].tags.size()); ++ti) { size_t n = g_seeds[si].ts.t[g_seeds[si].tags[ti]].size();
        g_tp.push_back({ si, ti, 1, 0 }); for (uint32_t g : { 1u, 8u, 64u }) g_tp.push_back({ si, ti, 2, g });
        if (n <= 4096) for (uint32_t L = 0; L < n; ++L) g_tp.push_back({ si, ti, 0, L }); else { for (uint32_t L = 0; L < 80; ++L) g_tp.push_back({ si, ti, 0, L }); for (uint32_t L = uint32_t(n) - 80; L < n; ++L) g_tp.push_back({ si, ti, 0, L }); } }
    r.ncases = g_tp.size(); r.case_alarm_s = 120;
    r.describe = [](uint64_t i) { const TruncPos &p = g_tp[i]; const Seed &s = g_seeds[p.seed]; JObj o; o.kv("seed", s.name).kv("table", tagstr(s.tags[p.tag])).kv("deviation", p.kind == 0 ? "truncated to length" : p.kind == 1 ? "absent" : "trailing garbage bytes").kv("n", p.len); return o; };
    r.body = [](uint64_t i, ShardCtl &c) { const TruncPos &p = g_tp[i]; const Seed &s = g_seeds[p.seed]; TableSet ts = s.ts; uint32_t tag = s.tags[p.tag];
        if (p.kind == 1) ts.t.erase(tag); else if (p.kind == 0) ts.t[tag].resize(p.len); else { for (uint32_t k = 0; k < p.len; ++k) ts.t[tag].push_back(uint8_t(0xA5 + k)); }
        for (unsigned o : { 0u, 7u }) try_font(i, ts, o, c, s.name + " " + tagstr(tag) + (p.kind == 0 ? " prefix " : p.kind == 1 ? " absent " : " garbage ") + std::to_string(p.len), o == 0 && ts.t.begin()->second.size() < (1u << 20)); };
}

// ---- truncation made consistent with one field: the table loses its last c bytes AND one of its fields is lowered by c
// (a length / count / offset field that described the extent up to the table end now matches the shorter table)
struct TFPos { int seed, tag; uint32_t off; uint8_t w; }; static std::vector<TFPos> g_tf;
static void setup_truncfield(Runner &r, const Tier &t) {
    load_seeds(t.thorough); g_tf.clear();
    for (int si = 0; si < int(g_seeds.size()); ++si) { for (int ti = 0; ti < int(g_seeds[si].tags.size()); ++ti) { size_t n = g_seeds[si].ts.t[g_seeds[si].tags[ti]].size(); if (n > 8192) continue;
        for (uint32_t f : g_seeds[si].fields[ti]) { uint32_t o = f >> 8; uint8_t w = uint8_t(f & 0xFF); if ((w == 2 || w == 4) && o + w <= n) g_tf.push_back({ si, ti, o, w }); } } }
    r.ncases = g_tf.size(); r.case_alarm_s = 120;
    r.describe = [](uint64_t i) { const TFPos &p = g_tf[i]; const Seed &s = g_seeds[p.seed]; JObj o; o.kv("seed", s.name).kv("table", tagstr(s.tags[p.tag])).kv("field_offset", p.off).kv("field_width", p.w).kv("deviation", "table shortened by c = 1..16 bytes and the field lowered by c (and by c/2, c/4, c/8 for counts of 2-, 4-, 8-byte records)"); return o; };
    r.body = [](uint64_t i, ShardCtl &c) { const TFPos &p = g_tf[i]; const Seed &s = g_seeds[p.seed]; uint32_t tag = s.tags[p.tag]; const Bytes &orig = s.ts.t.at(tag);
        uint32_t v = p.w == 2 ? be16(&orig[p.off]) : be32(&orig[p.off]);
        for (uint32_t cut = 1; cut <= 16; ++cut) for (uint32_t div : { 1u, 2u, 4u, 8u }) { if (cut % div) continue; uint32_t dec = cut / div; if (v < dec || orig.size() < cut || p.off + p.w > orig.size() - cut) continue;
            TableSet ts = s.ts; Bytes &b = ts.t[tag]; b.resize(orig.size() - cut); uint32_t nv = v - dec; if (p.w == 2) { b[p.off] = uint8_t(nv >> 8); b[p.off + 1] = uint8_t(nv); } else { b[p.off] = uint8_t(nv >> 24); b[p.off + 1] = uint8_t(nv >> 16); b[p.off + 2] = uint8_t(nv >> 8); b[p.off + 3] = uint8_t(nv); }
            for (unsigned o : { 0u, 7u }) try_font(i, ts, o, c, mdesc(s, tag, p.off, p.w, nv) + " cut " + std::to_string(cut), o == 0); } };
}
// ---- container through the file path ----
struct ContPos { int seed; uint32_t off; }; static std::vector<ContPos> g_cp; static std::vector<Bytes> g_sfnt;
static void setup_container(Runner &r, const Tier &t) {
    load_seeds(t.thorough); g_cp.clear(); g_sfnt.clear();
    for (int si = 0; si < int(g_seeds.size()); ++si) { g_sfnt.push_back(g_seeds[si].ts.to_sfnt()); if (!(g_seeds[si].name == "small.ttf" || g_seeds[si].name == "s_min.ttf" || (t.thorough && g_seeds[si].name == "s_full_z.ttf"))) continue; size_t hdr = 12 + 16 * g_seeds[si].ts.t.size(); for (uint32_t o = 0; o < hdr; ++o) g_cp.push_back({ si, o }); }
    r.ncases = g_cp.size(); r.case_alarm_s = 300;
    r.describe = [](uint64_t i) { JObj o; o.kv("seed", g_seeds[g_cp[i].seed].name).kv("sfnt_header_or_directory_byte", g_cp[i].off).kv("values", "all 255 other values, through gr_make_file_face"); return o; };
    r.body = [](uint64_t i, ShardCtl &c) { const ContPos &p = g_cp[i]; Bytes d = g_sfnt[p.seed]; uint8_t orig = d[p.off]; std::string work = getenv("VERIF_WORK") ? getenv("VERIF_WORK") : "/verif/build/work"; std::string path = work + "/c01_container." + std::to_string(getpid()) + ".ttf";
        for (int v = 0; v < 256; ++v) { if (v == orig) continue; d[p.off] = uint8_t(v);
            FILE *f = fopen(path.c_str(), "wb"); if (!f) return; fwrite(d.data(), 1, d.size(), f); fclose(f);
            size_t bal0 = allocated_bytes(); gr_face *face = gr_make_file_face(path.c_str(), v & 7); c.counters[0] = c.counters[0] + 1;
            if (face) { c.counters[1] = c.counters[1] + 1; { std::string fd = dump_face(face); c.cls(hash_str(fd)); } gr_segment *s = gr_make_seg(nullptr, face, 0, nullptr, gr_utf8, "ab", 2, 0); if (s) gr_seg_destroy(s); gr_face_destroy(face); }
            size_t bal1 = allocated_bytes(); if (bal1 != bal0) { JObj o; o.kv("prop", "C01").kv("kind", "load_contract").kv("why", "memory still allocated after a file face was destroyed or failed to load").kv("mutant", g_seeds[p.seed].name + " sfnt@" + std::to_string(p.off) + "=" + std::to_string(v)); report_fail(i, o); } }
        unlink(path.c_str()); };
}

// ---- compressed payloads: every byte of the LZ4 block (and the 8-byte wrapper) of the compressed seeds ----
struct ZPos { int seed, tag; uint32_t off; }; static std::vector<ZPos> g_zp;
static void setup_zpayload(Runner &r, const Tier &t) {
    load_seeds(true); g_zp.clear();     // needs the compressed seeds regardless of tier
    for (int si = 0; si < int(g_seeds.size()); ++si) { const std::string &n = g_seeds[si].name; bool small = n == "s_full_z.ttf"; bool big = t.thorough && n == "Awami_compressed_test.ttf"; if (!small && !big) continue;
        for (int ti = 0; ti < int(g_seeds[si].tags.size()); ++ti) { uint32_t tag = g_seeds[si].tags[ti]; if (tag != mktag("Silf") && tag != mktag("Glat")) continue; const Bytes &b = g_seeds[si].ts.t[tag]; if (b.size() < 8 || (be32(&b[4]) >> 27) == 0) continue;
            size_t n2 = b.size(); for (uint32_t o = 0; o < n2; ++o) if (small || o < 300 || o + 100 > n2) g_zp.push_back({ si, ti, o }); } }
    r.ncases = g_zp.size(); r.case_alarm_s = 600;
    r.describe = [](uint64_t i) { const ZPos &b = g_zp[i]; const Seed &s = g_seeds[b.seed]; JObj o; o.kv("seed", s.name).kv("compressed_table", tagstr(s.tags[b.tag])).kv("offset", b.off).kv("values", "all 255 other byte values"); return o; };
    r.body = [](uint64_t i, ShardCtl &c) { const ZPos &b = g_zp[i]; const Seed &s = g_seeds[b.seed]; TableSet ts = s.ts; Bytes &tb = ts.t[s.tags[b.tag]]; uint8_t orig = tb[b.off]; bool big = tb.size() > 4096;
        for (int v = 0; v < 256; v += big ? 17 : 1) { if (v == orig) continue; tb[b.off] = uint8_t(v); try_font(i, ts, 0, c, mdesc(s, s.tags[b.tag], b.off, 1, v), !big); } };
}
int main(int argc, char **argv) {
    std::vector<Sub> subs; std::vector<std::string> cn = { "loads", "accepted", "segments_on_accepted_mutants" };
    { Sub s; s.name = "bytes"; s.setup = setup_bytes; s.budget_quick = 140; s.budget_thorough = 1500; s.counter_names = cn; subs.push_back(s); }
    { Sub s; s.name = "fields"; s.setup = setup_fields; s.budget_quick = 140; s.budget_thorough = 1500; s.counter_names = cn; subs.push_back(s); }
    { Sub s; s.name = "truncation"; s.setup = setup_trunc; s.budget_quick = 100; s.budget_thorough = 900; s.counter_names = cn; subs.push_back(s); }
    { Sub s; s.name = "container"; s.setup = setup_container; s.budget_quick = 60; s.budget_thorough = 300; s.counter_names = cn; subs.push_back(s); }
    { Sub s; s.name = "truncation_with_field"; s.setup = setup_truncfield; s.budget_quick = 100; s.budget_thorough = 900; s.counter_names = cn; subs.push_back(s); }
    { Sub s; s.name = "compressed_payload"; s.setup = setup_zpayload; s.budget_quick = 100; s.budget_thorough = 900; s.counter_names = cn; subs.push_back(s); }
    { Sub s; s.name = "pairs"; s.setup = setup_pairs; s.budget_quick = 100; s.budget_thorough = 1500; s.counter_names = cn; subs.push_back(s); }
    return check_main(argc, argv, "C01", subs);
}
