// Consumer side of the font stream produced by the Python enumerators (gen/*.py):
//   record = u64 idx, u32 nmeta, meta bytes (JSON text), u32 ntables, (tag4, u32 len, bytes)*   (little endian)
// Records are processed in forked batches so that a crash identifies exactly one record, which is then
// confirmed alone and reported with its bytes (replayable through --replay-stdin).
#pragma once
#include "shard.hpp"
#include "memface.hpp"

namespace vf {

static ShardCtl *g_kinds = nullptr;   // shared set of failure kinds already reported by this worker (one replayable example per kind)

struct StreamCase { uint64_t idx = 0; std::string meta; TableSet ts; Bytes raw; };

inline bool read_exact(FILE *f, void *p, size_t n) { return n == 0 || fread(p, 1, n, f) == n; }
inline bool read_case(FILE *f, StreamCase &c) {
    uint64_t idx; uint32_t nm, nt; c.raw.clear(); c.ts.t.clear();
    if (!read_exact(f, &idx, 8)) return false;
    auto app = [&](const void *p, size_t n) { const uint8_t *b = (const uint8_t*)p; c.raw.insert(c.raw.end(), b, b + n); };
    app(&idx, 8); c.idx = idx;
    if (!read_exact(f, &nm, 4) || nm > (1u << 20)) return false; app(&nm, 4);
    c.meta.resize(nm); if (!read_exact(f, &c.meta[0], nm)) return false; app(c.meta.data(), nm);
    if (!read_exact(f, &nt, 4) || nt > 64) return false; app(&nt, 4);
    for (uint32_t i = 0; i < nt; ++i) {
        uint8_t tag[4]; uint32_t len; if (!read_exact(f, tag, 4) || !read_exact(f, &len, 4) || len > (64u << 20)) return false;
        Bytes b(len); if (!read_exact(f, b.data(), len)) return false;
        app(tag, 4); app(&len, 4); app(b.data(), len);
        c.ts.t[be32(tag)] = std::move(b);
    }
    return true;
}

struct StreamRunner {
    std::string name; std::string workdir = getenv("VERIF_WORK") ? getenv("VERIF_WORK") : "/verif/build/work";
    size_t batch = 128; unsigned case_alarm_s = 30; double deadline_s = 1e9;
    std::function<void(const StreamCase&, ShardCtl&)> body;
    std::function<void()> child_init;
    // results
    uint64_t total = 0; uint64_t counters[NCOUNTERS] = {0}; std::set<uint64_t> classes; std::vector<std::string> failures; unsigned unconfirmed = 0; bool cut = false; double wall = 0; uint64_t suppressed = 0; std::string first_meta, last_meta;
    std::string tag;   // unique suffix for scratch files (pid)

    void run_child(const std::vector<StreamCase> &b, size_t from, size_t only, ShardCtl *ctl, const std::string &failfile, const std::string &errfile) {
        g_ctl = ctl; int efd = open(errfile.c_str(), O_WRONLY|O_CREAT|O_TRUNC, 0644); if (efd >= 0) { dup2(efd, 2); close(efd); }
        g_failfd = open(failfile.c_str(), O_WRONLY|O_CREAT|O_APPEND, 0644);
        if (child_init) child_init();
        for (size_t i = from; i < b.size(); ++i) { if (only != size_t(-1) && i != only) continue; ctl->cur = i; alarm(only != size_t(-1) ? case_alarm_s * 10 : case_alarm_s); body(b[i], *ctl); ctl->done = ctl->done + 1; }
        alarm(0); ctl->cur = ~0ULL; fflush(stdout); _exit(0);
    }
    void run(FILE *in) {
        double t0 = now_s(); tag = std::to_string(getpid());
        int r = system(("mkdir -p " + workdir).c_str()); (void)r;
        std::string failfile = workdir + "/" + name + ".sfail." + tag, errfile = workdir + "/" + name + ".serr." + tag;
        ShardCtl *ctl = (ShardCtl*)mmap(nullptr, sizeof(ShardCtl) * 3, PROT_READ|PROT_WRITE, MAP_SHARED|MAP_ANONYMOUS, -1, 0);
        memset((void*)ctl, 0, sizeof(ShardCtl) * 3); g_kinds = ctl + 2; unlink(failfile.c_str());
        std::vector<StreamCase> b; bool eof = false;
        while (!eof) {
            b.clear(); StreamCase c;
            while (b.size() < batch) { if (!read_case(in, c)) { eof = true; break; } if (first_meta.empty()) first_meta = c.meta; last_meta = c.meta; b.push_back(c); }
            if (b.empty()) break;
            if (now_s() - t0 > deadline_s) { cut = true; break; }        // deadline: stop reading (the producer sees a closed pipe and exits)
            size_t from = 0;
            while (from < b.size()) {
                ctl->cur = ~0ULL; fflush(stdout);
                pid_t p = fork(); if (p == 0) run_child(b, from, size_t(-1), ctl, failfile, errfile);
                int st = 0; waitpid(p, &st, 0);
                if (WIFEXITED(st) && WEXITSTATUS(st) == 0) break;
                size_t at = size_t(ctl->cur); std::string how = WIFSIGNALED(st) ? ("signal " + std::to_string(WTERMSIG(st))) : ("exit " + std::to_string(WEXITSTATUS(st)));
                if (at >= b.size()) { JObj o; o.kv("check", name).kv("kind", "harness_died_outside_case").kv("how", how).kv("report", Runner::head_of(errfile)); failures.push_back(o.str()); break; }
                std::string rep1 = Runner::head_of(errfile);
                pid_t q = fork(); if (q == 0) run_child(b, 0, at, ctl + 1, failfile + ".c", errfile + ".c");
                int st2 = 0; waitpid(q, &st2, 0); unlink((failfile + ".c").c_str());
                if (!(WIFEXITED(st2) && WEXITSTATUS(st2) == 0)) {
                    std::string rep2 = Runner::head_of(errfile + ".c");
                    JObj o; o.kv("check", name).kv("kind", "crash").kv("how", how).kv("case", (unsigned long long)b[at].idx).raw("meta", b[at].meta.empty() ? "null" : b[at].meta).kv("report", rep2.empty() ? rep1 : rep2);
                    if (b[at].raw.size() < (1u << 20)) o.kv("blob", hex(b[at].raw.data(), b[at].raw.size()));
                    failures.push_back(o.str());
                } else ++unconfirmed;
                unlink((errfile + ".c").c_str());
                from = at + 1;
            }
        }
        total = ctl->done; for (int k = 0; k < NCOUNTERS; ++k) counters[k] = ctl->counters[k];
        for (unsigned i = 0; i < HASHCAP; ++i) if (ctl->hashes[i]) classes.insert(uint64_t(ctl->hashes[i]));
        FILE *f = fopen(failfile.c_str(), "r");
        if (f) { char *line = nullptr; size_t cap = 0; ssize_t n; while ((n = getline(&line, &cap, f)) > 0) { std::string l(line, n); while (!l.empty() && l.back() == '\n') l.pop_back(); if (!l.empty()) failures.push_back(l); } free(line); fclose(f); unlink(failfile.c_str()); }
        suppressed = g_kinds->counters[0] - g_kinds->nhash; unlink(errfile.c_str()); munmap(ctl, sizeof(ShardCtl) * 3);
        wall = now_s() - t0;
    }
};

// helper for oracle failures inside a stream case: attaches the record bytes so that the case is replayable
inline std::string normalise_digits(const std::string &s) { std::string o; bool in = false; for (char ch : s) { if (ch >= '0' && ch <= '9') { if (!in) o += '#'; in = true; } else { o += ch; in = false; } } return o; }
inline void report_stream_fail(const StreamCase &c, JObj o, const std::string &kind_key = std::string()) {
    if (g_kinds && !kind_key.empty()) {
        uint64_t h = hash_str(normalise_digits(kind_key)); uint32_t before = g_kinds->nhash; g_kinds->cls(h);
        g_kinds->counters[0] = g_kinds->counters[0] + 1;
        if (g_kinds->nhash == before) return;            // this kind already has an example
    }
    o.kv("case", (unsigned long long)c.idx).raw("meta", c.meta.empty() ? "null" : c.meta);
    if (c.raw.size() < (256u << 10)) o.kv("blob", hex(c.raw.data(), c.raw.size()));
    if (!g_ctl) { printf("FAIL %s\n", o.str().c_str()); return; }
    if (g_ctl->nfail >= MAX_FAIL_PER_SHARD) { g_ctl->nfail = g_ctl->nfail + 1; return; }
    g_ctl->nfail = g_ctl->nfail + 1;
    std::string line = o.str() + "\n"; if (g_failfd >= 0) { ssize_t r = write(g_failfd, line.data(), line.size()); (void)r; }
}

// common main for stream harnesses: `bin --tier T [--sub name]` reads records from stdin; `--replay-stdin` runs them in-process
inline int stream_main(int argc, char **argv, const char *name, std::function<void(const StreamCase&, ShardCtl&)> body, std::function<void()> init,
                       std::vector<std::string> counter_names, double deadline_s = 1e9) {
    setvbuf(stdout, nullptr, _IOLBF, 0);
    if (argflag(argc, argv, "--replay-stdin")) {
        static ShardCtl ctl; g_ctl = nullptr; if (init) init(); StreamCase c; int n = 0;
        while (read_case(stdin, c)) { memset((void*)&ctl, 0, sizeof ctl); body(c, ctl); ++n; }
        printf("REPLAY-DONE %d\n", n); return 0;
    }
    StreamRunner r; r.name = name; r.body = body; r.child_init = init; r.deadline_s = atof(argval(argc, argv, "--deadline", "1e9")); (void)deadline_s;
    r.batch = atoi(argval(argc, argv, "--batch", "128"));
    r.run(stdin);
    JObj o; o.kv("sub", argval(argc, argv, "--sub", name)).kv("evaluations", (unsigned long long)r.total).kv("classes", (unsigned long long)r.classes.size()).kv("exhaustive", !r.cut)
        .kv("wall_s", r.wall).kv("failures", (unsigned long long)r.failures.size()).kv("failing_observations_same_kind_suppressed", (unsigned long long)r.suppressed).kv("unconfirmed_crashes", r.unconfirmed);
    JObj cn; for (size_t i = 0; i < counter_names.size() && i < NCOUNTERS; ++i) cn.kv(counter_names[i], (unsigned long long)r.counters[i]); o.raw("counters", cn.str());
    JArr sm; if (!r.first_meta.empty()) sm.raw(r.first_meta); if (!r.last_meta.empty() && r.last_meta != r.first_meta) sm.raw(r.last_meta); o.raw("samples", sm.str());
    JArr cl; size_t k = 0; for (uint64_t h : r.classes) { if (k++ >= 20000) break; cl.raw(std::to_string(h)); } o.raw("class_hashes", cl.str());
    printf("RESULT %s\n", o.str().c_str());
    for (auto &f : r.failures) printf("FAIL %s\n", f.c_str());
    return r.failures.empty() ? 0 : 1;
}

} // namespace vf
