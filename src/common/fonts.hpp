// Locations of the shipped fonts / corpora (test data of the repository under test).
#pragma once
#include "memface.hpp"
#include <string>
#include <vector>

namespace vf {

inline std::string repo_root() { const char *r = getenv("VERIF_REPO"); return r && *r ? r : "/repo"; }
inline std::string font_path(const std::string &name) { return repo_root() + "/tests/fonts/" + name; }
inline std::string text_path(const std::string &name) { return repo_root() + "/tests/texts/" + name; }
inline std::string gen_dir() { const char *r = getenv("VERIF_GEN"); return r && *r ? r : "/verif/build/gen"; }

struct ShippedFont { const char *file; const char *corpus; bool rtl; };
// fonts that the unchanged library loads, with the corpus the test-suite pairs them with
inline const std::vector<ShippedFont> &shipped_fonts() {
    static const std::vector<ShippedFont> v = {
        { "small.ttf", "test_small.txt", false },
        { "Padauk.ttf", "my_HeadwordSyllables.txt", false },
        { "Scheherazadegr.ttf", "udhr_arb.txt", true },
        { "charis_r_gr.ttf", "udhr_yor.txt", false },
        { "Annapurnarc2.ttf", "udhr_nep.txt", false },
        { "Awami_test.ttf", "awami_tests.txt", true },
        { "Awami_compressed_test.ttf", "awami_tests.txt", true },
        { "AwamiNastaliq-Regular.ttf", "awami_tests.txt", true },
        { "MagyarLinLibertineG.ttf", "udhr_eng.txt", false },
        { "PigLatinBenchmark_v3.ttf", "udhr_eng.txt", false },
        { "Charis5_eursub.ttf", "udhr_eng.txt", false },
        { "charis_fast.ttf", "udhr_yor.txt", false },
        { "general.ttf", "udhr_eng.txt", false },
        { "grtest1gr.ttf", "udhr_eng.txt", false },
        { "Scheherazadegr_noglyfs.ttf", "udhr_arb.txt", true },
        { "underflow.ttf", "udhr_eng.txt", false },
        { "tiny.ttf", "test_small.txt", false },
    };
    return v;
}

// split a UTF-8 corpus into lines and whitespace-delimited words (deduplicated, order preserved)
inline std::vector<std::string> corpus_items(const std::string &file, size_t max_items = 0, bool words = true) {
    Bytes d; std::vector<std::string> out; std::set<std::string> seen;
    if (!read_file(text_path(file), d)) return out;
    std::string s(d.begin(), d.end()); size_t i = 0;
    auto push = [&](const std::string &x) { if (!x.empty() && x.size() < 2000 && seen.insert(x).second) out.push_back(x); };
    while (i < s.size()) {
        size_t j = s.find('\n', i); if (j == std::string::npos) j = s.size();
        std::string line = s.substr(i, j - i); while (!line.empty() && (line.back() == '\r')) line.pop_back();
        push(line);
        if (words) { size_t a = 0; while (a < line.size()) { size_t b = line.find_first_of(" \t", a); if (b == std::string::npos) b = line.size(); push(line.substr(a, b - a)); a = b + 1; } }
        i = j + 1;
        if (max_items && out.size() >= max_items) break;
    }
    if (max_items && out.size() > max_items) out.resize(max_items);
    return out;
}

inline size_t utf8_count(const std::string &s) { size_t n = 0; for (unsigned char c : s) if ((c & 0xC0) != 0x80) ++n; return n; }

} // namespace vf
