// Fork-based sharded exhaustive enumeration with crash isolation, per-case watchdog and
// confirm-by-replay.  Cases are addressed by a dense index so every case is replayable alone.
#pragma once
#include "util.hpp"
#include <functional>
#include <signal.h>
#include <sys/wait.h>
#include <fcntl.h>

namespace vf {

enum { HASHCAP = 1 << 16, BLOBCAP = 1 << 16, NCOUNTERS = 64 };

struct ShardCtl {
    volatile uint64_t cur;       // case in progress (~0 = none)
    volatile uint64_t next;      // next case index this shard will run
    volatile uint64_t done;      // cases completed
    volatile int cut;            // deadline reached before the shard finished
    volatile uint64_t counters[NCOUNTERS];
    volatile uint32_t nhash;
    volatile uint64_t hashes[HASHCAP];
    volatile uint32_t blob_len;  // optional payload of the case in progress (e.g. the font under test)
    uint8_t blob[BLOBCAP];
    volatile uint32_t nfail;
    char note[256];              // free text about the case in progress

    void cls(uint64_t h) {       // record an outcome class (distinct count)
        if (h == 0) h = 1;
        uint32_t i = uint32_t(h * 0x9E3779B97F4A7C15ULL >> 48) & (HASHCAP - 1);
        for (unsigned probe = 0; probe < HASHCAP; ++probe, i = (i + 1) & (HASHCAP - 1)) {
            if (hashes[i] == h) return;
            if (hashes[i] == 0) { if (nhash >= HASHCAP * 3 / 4) return; hashes[i] = h; nhash = nhash + 1; return; }
        }
    }
    void set_blob(const void *p, size_t n) { blob_len = uint32_t(n < BLOBCAP ? n : 0); if (n && n < BLOBCAP) memcpy(blob, p, n); }
};

struct Runner;
static Runner *g_runner = nullptr;
static ShardCtl *g_ctl = nullptr;
static int g_failfd = -1;
static double g_t_end = 1e300;         // wall-clock deadline of the current run: long-running case bodies poll it (deadline_hit) and stop early
static FILE *g_hashf = nullptr;      // optional per-case observation hashes (cross-build differential)
inline void emit_hash(uint64_t idx, uint64_t h) { if (g_hashf) fprintf(g_hashf, "%llu %016llx\n", (unsigned long long)idx, (unsigned long long)h); }
static const unsigned MAX_FAIL_PER_SHARD = 25;

// watchdog for ONE library call inside a long case (cases that poll the deadline themselves carry a very long per-case alarm):
// a call that does not return within the limit ends the child with SIGALRM, which the runner reports and confirms like any crash
struct CallGuard { unsigned prev; explicit CallGuard(unsigned seconds) { prev = alarm(seconds); } ~CallGuard() { alarm(prev); } };

// called by a case body (in the child) when an oracle fails; the run continues
inline bool deadline_hit(ShardCtl &c) { if (now_s() > g_t_end) { c.cut = 1; return true; } return false; }

inline void report_fail(uint64_t idx, const JObj &desc) {
    if (!g_ctl) { printf("FAIL %s\n", desc.str().c_str()); return; }
    if (g_ctl->nfail >= MAX_FAIL_PER_SHARD) { g_ctl->nfail = g_ctl->nfail + 1; return; }
    g_ctl->nfail = g_ctl->nfail + 1;
    JObj o = desc; o.kv("case", (unsigned long long)idx);
    std::string line = o.str() + "\n";
    if (g_failfd >= 0) { ssize_t r = write(g_failfd, line.data(), line.size()); (void)r; }
}

struct Runner {
    std::string name;
    std::string workdir = getenv("VERIF_WORK") ? getenv("VERIF_WORK") : "/verif/build/work";
    int nshards = 16;
    uint64_t ncases = 0;
    double deadline_s = 120;
    unsigned case_alarm_s = 20;
    unsigned alarm_every = 1;
    unsigned max_crashes_per_shard = 3;
    std::function<void(uint64_t, ShardCtl&)> body;
    std::function<JObj(uint64_t)> describe;          // descriptor of case idx
    std::function<void(int)> shard_init;             // optional per-child initialisation
    std::string hash_out;                            // if set: merged "idx hash" lines are written here
    uint64_t max_mask = 0;                           // counters whose bit is set are merged with max instead of sum
    // results
    uint64_t total_done = 0; uint64_t counters[NCOUNTERS] = {0};
    std::set<uint64_t> classes; bool exhaustive = true; uint64_t covered_prefix = 0;
    unsigned unconfirmed = 0; bool class_cap_hit = false;
    std::vector<std::string> failures;
    double wall = 0;

    std::string errpath(int s) const { return workdir + "/" + name + ".err." + std::to_string(s); }
    std::string failpath(int s) const { return workdir + "/" + name + ".fail." + std::to_string(s); }

    static std::string tail_of(const std::string &path, size_t n = 1500) {
        FILE *f = fopen(path.c_str(), "rb"); if (!f) return "";
        fseek(f, 0, SEEK_END); long sz = ftell(f); long st = sz > long(n) ? sz - long(n) : 0; fseek(f, st, SEEK_SET);
        std::string s(sz - st, 0); size_t r = fread(&s[0], 1, s.size(), f); s.resize(r); fclose(f); return s;
    }
    // first lines of a sanitizer report are the informative ones
    static std::string head_of(const std::string &path, size_t n = 1200) {
        FILE *f = fopen(path.c_str(), "rb"); if (!f) return "";
        std::string s(n, 0); size_t r = fread(&s[0], 1, n, f); s.resize(r); fclose(f); return s;
    }

    void child(int s, ShardCtl *ctl, double t_end) {
        g_ctl = ctl; g_t_end = t_end;
        int efd = open(errpath(s).c_str(), O_WRONLY|O_CREAT|O_TRUNC, 0644);
        if (efd >= 0) { dup2(efd, 2); close(efd); }
        g_failfd = open(failpath(s).c_str(), O_WRONLY|O_CREAT|O_APPEND, 0644);
        if (!hash_out.empty()) g_hashf = fopen((hash_out + "." + std::to_string(s)).c_str(), "a");
        if (shard_init) shard_init(s);
        uint64_t k = 0;
        for (uint64_t i = ctl->next; i < ncases; i += nshards, ++k) {
            if ((k & 15) == 0 && now_s() > t_end) { ctl->cut = 1; break; }
            ctl->cur = i;
            if (k % alarm_every == 0) alarm(case_alarm_s);
            body(i, *ctl);
            ctl->done = ctl->done + 1;
            ctl->next = i + nshards;
            if (ctl->nfail > MAX_FAIL_PER_SHARD) { ctl->cut = 1; break; }
            if (ctl->cut) break;
        }
        alarm(0);
        ctl->cur = ~0ULL;
        if (g_hashf) fclose(g_hashf);
        fflush(stdout);
        _exit(0);
    }

    // run one case alone in a fresh child; returns true if it dies abnormally again
    bool confirm_crash(uint64_t idx, ShardCtl *scratch, std::string &report) {
        memset((void*)scratch, 0, sizeof(ShardCtl)); scratch->next = idx;
        std::string ep = workdir + "/" + name + ".err.confirm";
        pid_t p = fork();
        if (p == 0) {
            g_ctl = scratch;
            int efd = open(ep.c_str(), O_WRONLY|O_CREAT|O_TRUNC, 0644);
            if (efd >= 0) { dup2(efd, 2); close(efd); }
            g_failfd = open((workdir + "/" + name + ".fail.confirm").c_str(), O_WRONLY|O_CREAT|O_TRUNC, 0644);
            if (shard_init) shard_init(-1);
            scratch->cur = idx; alarm(case_alarm_s < 60 ? case_alarm_s * 4 : case_alarm_s + 180);      // replayed alone, with a longer limit than in the run
            body(idx, *scratch);
            alarm(0); _exit(0);
        }
        int st = 0; waitpid(p, &st, 0);
        report = head_of(ep);
        return !(WIFEXITED(st) && WEXITSTATUS(st) == 0);
    }

    void run() {
        double t0 = now_s(), t_end = t0 + deadline_s;
        int r = system(("mkdir -p " + workdir).c_str()); (void)r;
        if (uint64_t(nshards) > ncases) nshards = ncases ? int(ncases) : 1;
        size_t sz = sizeof(ShardCtl) * (nshards + 1);
        ShardCtl *ctls = (ShardCtl*)mmap(nullptr, sz, PROT_READ|PROT_WRITE, MAP_SHARED|MAP_ANONYMOUS, -1, 0);
        if (ctls == MAP_FAILED) { perror("mmap"); exit(3); }
        memset((void*)ctls, 0, sz);
        std::vector<pid_t> pid(nshards); std::vector<unsigned> crashes(nshards, 0);
        fflush(stdout);
        for (int s = 0; s < nshards; ++s) {
            if (!hash_out.empty()) unlink((hash_out + "." + std::to_string(s)).c_str());
            unlink(failpath(s).c_str());
            ctls[s].next = s; ctls[s].cur = ~0ULL;
            pid[s] = fork();
            if (pid[s] == 0) child(s, &ctls[s], t_end);
        }
        int live = nshards;
        while (live > 0) {
            int st = 0; pid_t p = wait(&st);
            if (p < 0) break;
            int s = -1; for (int i = 0; i < nshards; ++i) if (pid[i] == p) s = i;
            if (s < 0) continue;
            --live;
            if (WIFEXITED(st) && WEXITSTATUS(st) == 0) continue;
            // abnormal death: identify the case, confirm alone, restart after it
            uint64_t idx = ctls[s].cur;
            std::string how = WIFSIGNALED(st) ? ("signal " + std::to_string(WTERMSIG(st))) : ("exit " + std::to_string(WEXITSTATUS(st)));
            std::string rep1 = head_of(errpath(s));
            if (idx == ~0ULL) {   // died outside any case: harness problem, report loudly
                JObj o; o.kv("check", name).kv("kind", "harness_died_outside_case").kv("how", how).kv("report", rep1);
                failures.push_back(o.str()); exhaustive = false; continue;
            }
            std::string rep2; bool again = confirm_crash(idx, &ctls[nshards], rep2);
            if (again) {
                JObj o = describe ? describe(idx) : JObj();
                o.kv("check", name).kv("kind", "crash").kv("how", how).kv("case", (unsigned long long)idx).kv("report", rep2.empty() ? rep1 : rep2);
                if (ctls[s].blob_len) o.kv("blob", hex(ctls[s].blob, ctls[s].blob_len));
                failures.push_back(o.str());
            } else {
                ++unconfirmed;
                fprintf(stderr, "[%s] case %llu died (%s) in shard %d but passed when replayed alone; not reported\n", name.c_str(), (unsigned long long)idx, how.c_str(), s);
            }
            ctls[s].next = idx + nshards; ctls[s].cur = ~0ULL;
            if (++crashes[s] >= max_crashes_per_shard) { exhaustive = false; continue; }
            pid[s] = fork();
            if (pid[s] == 0) child(s, &ctls[s], t_end);
            ++live;
        }
        covered_prefix = ncases;
        for (int s = 0; s < nshards; ++s) {
            total_done += ctls[s].done;
            for (int c = 0; c < NCOUNTERS; ++c) { if (max_mask >> c & 1) { if (ctls[s].counters[c] > counters[c]) counters[c] = ctls[s].counters[c]; } else counters[c] += ctls[s].counters[c]; }
            for (unsigned i = 0; i < HASHCAP; ++i) if (ctls[s].hashes[i]) classes.insert(uint64_t(ctls[s].hashes[i]));
            if (ctls[s].nhash >= HASHCAP * 3 / 4) class_cap_hit = true;
            if (ctls[s].cut || ctls[s].next < ncases) { exhaustive = false; if (ctls[s].next < covered_prefix) covered_prefix = ctls[s].next; }
            FILE *f = fopen(failpath(s).c_str(), "r");
            if (f) { char *line = nullptr; size_t cap = 0; ssize_t n;
                while ((n = getline(&line, &cap, f)) > 0) { std::string l(line, n); while (!l.empty() && (l.back()=='\n')) l.pop_back(); if (!l.empty()) failures.push_back(l); }
                free(line); fclose(f); unlink(failpath(s).c_str()); }
            unlink(errpath(s).c_str());
        }
        if (!hash_out.empty()) {
            std::map<uint64_t, std::string> all;
            for (int s = 0; s < nshards; ++s) { std::string pth = hash_out + "." + std::to_string(s); FILE *f = fopen(pth.c_str(), "r"); if (!f) continue;
                unsigned long long i; char hx[32]; while (fscanf(f, "%llu %31s", &i, hx) == 2) all[i] = hx; fclose(f); unlink(pth.c_str()); }
            FILE *o = fopen(hash_out.c_str(), "w"); if (o) { for (auto &kv : all) fprintf(o, "%llu %s\n", (unsigned long long)kv.first, kv.second.c_str()); fclose(o); }
        }
        munmap(ctls, sz);
        wall = now_s() - t0;
    }

    // run exactly one case in-process (replay mode)
    void replay(uint64_t idx) {
        static ShardCtl ctl; memset((void*)&ctl, 0, sizeof ctl); g_ctl = nullptr;
        if (!hash_out.empty()) g_hashf = stdout;
        if (shard_init) shard_init(-1);
        body(idx, ctl);
    }
};

} // namespace vf
