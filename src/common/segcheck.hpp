// Literal implementation of the structural oracles C03 (stream), C04 (attachment forest), C05 (char<->slot).
#pragma once
#include "dump.hpp"
#include "../ref/utf_ref.hpp"
#include <algorithm>

namespace vf {

struct SegExpect {
    size_t nchars = 0;                              // the n the segment was made from (after NUL truncation)
    const std::vector<ref::Decoded> *chars = nullptr; // reference decoding (may be null: skip char clause)
    bool strict_chars = true;                       // exact equality incl. bases; false: compare non-FFFD subsequence only
    int n_glyphs = -1;                              // >=0 enables the gid clause of C03
};

struct SegViolation { std::string prop, what; };

inline void check_segment(gr_segment *seg, const SegExpect &e, std::vector<SegViolation> &out) {
    auto bad = [&](const char *prop, const std::string &w) { if (out.size() < 16) out.push_back({prop, w}); };
    if (!seg) return;
    const unsigned n = gr_seg_n_slots(seg);
    // ---- C03: stream ----
    std::vector<const gr_slot*> sl; std::map<const gr_slot*, int> pos;
    const gr_slot *first = gr_seg_first_slot(seg), *last = gr_seg_last_slot(seg);
    {
        const gr_slot *prev = nullptr; bool cyc = false;
        for (const gr_slot *s = first; s; s = gr_slot_next_in_segment(s)) {
            if (pos.count(s)) { bad("C03", "next chain revisits a slot"); cyc = true; break; }
            if (sl.size() > size_t(n) + 2) { bad("C03", "next chain longer than n_slots"); cyc = true; break; }
            if (gr_slot_prev_in_segment(s) != prev) bad("C03", "prev is not the inverse of next at position " + std::to_string(sl.size()));
            pos[s] = int(sl.size()); sl.push_back(s); prev = s;
        }
        if (!cyc) {
            if (sl.size() != n) bad("C03", "next chain visits " + std::to_string(sl.size()) + " slots, n_slots=" + std::to_string(n));
            if ((sl.empty() ? nullptr : sl.back()) != last) bad("C03", "next chain does not end at last_slot");
        }
        if (n == 0 && (first || last)) bad("C03", "n_slots==0 but first/last non-null");
    }
    {
        std::vector<char> seen(sl.size(), 0);
        for (const gr_slot *s : sl) {
            unsigned ix = gr_slot_index(s);
            if (ix >= sl.size() || seen[ix]) { bad("C03", "slot indices are not a permutation of 0..n-1 (index " + std::to_string(ix) + ")"); break; }
            seen[ix] = 1;
        }
        if (!std::isfinite(gr_seg_advance_X(seg)) || !std::isfinite(gr_seg_advance_Y(seg))) bad("C03", "segment advance not finite");
        for (const gr_slot *s : sl) {
            if (!std::isfinite(gr_slot_origin_X(s)) || !std::isfinite(gr_slot_origin_Y(s))) { bad("C03", "slot origin not finite"); break; }
            if (!std::isfinite(gr_slot_advance_X(s, nullptr, nullptr)) || !std::isfinite(gr_slot_advance_Y(s, nullptr, nullptr))) { bad("C03", "slot advance not finite"); break; }
        }
        if (e.n_glyphs >= 0) for (const gr_slot *s : sl) if (int(gr_slot_gid(s)) >= e.n_glyphs) { bad("C03", "gid " + std::to_string(gr_slot_gid(s)) + " >= n_glyphs " + std::to_string(e.n_glyphs)); break; }
    }
    // ---- C04: forest ----
    {
        auto P = [&](const gr_slot *s) { auto it = pos.find(s); return it == pos.end() ? -2 : it->second; };
        std::vector<int> listed(sl.size(), 0);     // how many times slot i occurs in its parent's child chain
        for (size_t i = 0; i < sl.size(); ++i) {
            // parent chain
            const gr_slot *p = sl[i]; size_t steps = 0; bool ok = true;
            while ((p = gr_slot_attached_to(p)) != nullptr) {
                if (P(p) < 0) { bad("C04", "parent chain of slot " + std::to_string(i) + " leaves the segment"); ok = false; break; }
                if (++steps > sl.size()) { bad("C04", "parent chain of slot " + std::to_string(i) + " does not terminate"); ok = false; break; }
            }
            (void)ok;
            // child chain of slot i
            size_t cnt = 0;
            for (const gr_slot *c = gr_slot_first_attachment(sl[i]); c; c = gr_slot_next_sibling_attachment(c)) {
                if (++cnt > sl.size() + 1) { bad("C04", "child chain of slot " + std::to_string(i) + " does not terminate"); break; }
                int cp = P(c);
                if (cp < 0) { bad("C04", "child chain of slot " + std::to_string(i) + " leaves the segment"); break; }
                if (gr_slot_attached_to(c) != sl[i]) { bad("C04", "slot " + std::to_string(cp) + " is in the child chain of " + std::to_string(i) + " but names another parent"); break; }
                listed[cp]++;
            }
        }
        for (size_t i = 0; i < sl.size(); ++i)
            if (gr_slot_attached_to(sl[i]) && listed[i] != 1) { bad("C04", "attached slot " + std::to_string(i) + " occurs " + std::to_string(listed[i]) + " times in its parent's child chain"); break; }
        // bases: one sibling chain containing each base exactly once
        std::vector<int> bases; for (size_t i = 0; i < sl.size(); ++i) if (!gr_slot_attached_to(sl[i])) bases.push_back(int(i));
        if (!bases.empty()) {
            std::vector<int> indeg(sl.size(), 0); bool okb = true;
            for (int b : bases) {
                const gr_slot *nx = gr_slot_next_sibling_attachment(sl[b]);
                if (!nx) continue;
                int np = P(nx);
                if (np < 0) { bad("C04", "base sibling link leaves the segment"); okb = false; break; }
                if (gr_slot_attached_to(nx)) { bad("C04", "base " + std::to_string(b) + " has a non-base sibling " + std::to_string(np)); okb = false; break; }
                if (++indeg[np] > 1) { bad("C04", "two bases link to base " + std::to_string(np)); okb = false; break; }
            }
            if (okb) {
                int head = -1, heads = 0; for (int b : bases) if (!indeg[b]) { head = b; ++heads; }
                if (heads != 1) bad("C04", "bases form " + std::to_string(heads) + " sibling chains (expected 1) over " + std::to_string(bases.size()) + " bases");
                else {
                    size_t cnt = 0; for (const gr_slot *s = sl[head]; s; s = gr_slot_next_sibling_attachment(s)) if (++cnt > bases.size()) break;
                    if (cnt != bases.size()) bad("C04", "base chain from head visits " + std::to_string(cnt) + " of " + std::to_string(bases.size()) + " bases");
                }
            }
        }
    }
    // ---- C05: association ----
    {
        const unsigned nc = gr_seg_n_cinfo(seg);
        if (nc != e.nchars) bad("C05", "n_cinfo=" + std::to_string(nc) + " but segment was made from " + std::to_string(e.nchars) + " characters");
        size_t prevbase = 0;
        for (unsigned i = 0; i < nc; ++i) {
            const gr_char_info *c = gr_seg_cinfo(seg, i);
            if (!c) { bad("C05", "cinfo NULL"); break; }
            size_t b = gr_cinfo_base(c);
            if (i && b <= prevbase) { bad("C05", "cinfo base not strictly increasing at " + std::to_string(i)); break; }
            prevbase = b;
            if (n) {
                int cb = gr_cinfo_before(c), ca = gr_cinfo_after(c);
                if (cb < 0 || cb >= int(n) || ca < 0 || ca >= int(n)) { bad("C05", "cinfo " + std::to_string(i) + " before/after (" + std::to_string(cb) + "," + std::to_string(ca) + ") outside [0," + std::to_string(n) + ")"); break; }
            }
        }
        if (e.chars) {
            const std::vector<ref::Decoded> &rc = *e.chars;
            if (e.strict_chars) {
                for (unsigned i = 0; i < nc && i < rc.size(); ++i) {
                    const gr_char_info *c = gr_seg_cinfo(seg, i); if (!c) break;
                    if (gr_cinfo_unicode_char(c) != rc[i].usv) { char b[96]; snprintf(b, sizeof b, "cinfo %u char U+%04X, reference U+%04X", i, gr_cinfo_unicode_char(c), rc[i].usv); bad("C05", b); break; }
                    if (gr_cinfo_base(c) != rc[i].offset) { char b[96]; snprintf(b, sizeof b, "cinfo %u base %zu, reference offset %zu", i, gr_cinfo_base(c), rc[i].offset); bad("C05", b); break; }
                }
            } else {
                std::vector<uint32_t> a, b;
                for (unsigned i = 0; i < nc; ++i) { const gr_char_info *c = gr_seg_cinfo(seg, i); if (c && gr_cinfo_unicode_char(c) != 0xFFFD) a.push_back(gr_cinfo_unicode_char(c)); }
                for (auto &d : rc) if (d.ok && d.usv != 0xFFFD && !d.surrogate) b.push_back(d.usv);
                // lenient mode is only meaningful when the library consumed the whole text; callers guarantee that
                if (a != b) bad("C05", "well-formed characters differ from the reference decoding");
            }
        }
        const int nci = int(nc);
        if (n && nc) {
            std::vector<char> cov(nc, 0);
            for (size_t i = 0; i < sl.size(); ++i) {
                int b = gr_slot_before(sl[i]), a = gr_slot_after(sl[i]), o = gr_slot_original(sl[i]);
                if (b < 0 || b >= nci || a < 0 || a >= nci || o < 0 || o >= nci) {
                    bad("C05", "slot " + std::to_string(i) + " before/after/original (" + std::to_string(b) + "," + std::to_string(a) + "," + std::to_string(o) + ") outside [0," + std::to_string(nc) + ")"); break; }
                for (int k = b; k <= a; ++k) cov[k] = 1;
            }
            for (unsigned i = 0; i < nc; ++i) if (!cov[i]) { bad("C05", "character " + std::to_string(i) + " is not inside any slot's [before,after]"); break; }
        }
    }
}

// exercise every query entry point on a segment (C02: "querying ... never causes an out-of-bounds access")
inline uint64_t touch_all_queries(gr_segment *seg, const gr_face *face, const gr_font *font, unsigned num_user) {
    uint64_t h = 0; if (!seg) return 0;
    bool over = false; std::vector<const gr_slot*> sl = seg_slots(seg, &over);
    for (const gr_slot *s : sl) {
        for (int a = 0; a <= int(gr_slatNoEffect); ++a) {
            unsigned maxsub = (a == gr_slatUserDefn) ? num_user + 1 : 1;
            for (unsigned k = 0; k < maxsub; ++k) h = h * 31 + unsigned(gr_slot_attr(s, seg, gr_attrCode(a), uint8_t(k)));
        }
        h = h * 31 + gr_slot_gid(s) + unsigned(gr_slot_can_insert_before(s));
        float ax = gr_slot_advance_X(s, face, font), ay = gr_slot_advance_Y(s, face, font); (void)ax; (void)ay;
    }
    return h;
}

} // namespace vf
