// Small utilities shared by all harnesses: JSON building, hashing, timing, ASan interface, guard-page buffers.
#pragma once
#include <cstdint>
#include <cstdio>
#include <cstdlib>
#include <cstring>
#include <cmath>
#include <string>
#include <vector>
#include <map>
#include <set>
#include <time.h>
#include <unistd.h>
#include <sys/mman.h>

#if defined(__has_feature)
#  if __has_feature(address_sanitizer)
#    define VF_ASAN 1
#  endif
#endif
#ifdef VF_ASAN
extern "C" size_t __sanitizer_get_current_allocated_bytes();
#endif

namespace vf {

inline double now_s() { timespec ts; clock_gettime(CLOCK_MONOTONIC, &ts); return ts.tv_sec + ts.tv_nsec * 1e-9; }

inline size_t allocated_bytes() {
#ifdef VF_ASAN
    return __sanitizer_get_current_allocated_bytes();
#else
    return 0;
#endif
}

inline uint64_t fnv1a(const void *p, size_t n, uint64_t h = 1469598103934665603ULL) {
    const uint8_t *b = (const uint8_t*)p;
    for (size_t i = 0; i < n; ++i) { h ^= b[i]; h *= 1099511628211ULL; }
    return h;
}
inline uint64_t hash_str(const std::string &s) { return fnv1a(s.data(), s.size()); }

inline std::string hex(const void *p, size_t n) {
    static const char *d = "0123456789abcdef"; std::string s; const uint8_t *b = (const uint8_t*)p;
    for (size_t i = 0; i < n; ++i) { s += d[b[i]>>4]; s += d[b[i]&15]; }
    return s;
}
inline std::vector<uint8_t> unhex(const std::string &s) {
    std::vector<uint8_t> o; auto v = [](char c){ return c<='9'?c-'0':(c|32)-'a'+10; };
    for (size_t i = 0; i + 1 < s.size(); i += 2) o.push_back(uint8_t(v(s[i])<<4 | v(s[i+1])));
    return o;
}

// ---------- minimal JSON object/array builder ----------
inline std::string jesc(const std::string &s) {
    std::string o = "\"";
    for (unsigned char c : s) {
        if (c == '"' || c == '\\') { o += '\\'; o += char(c); }
        else if (c == '\n') o += "\\n";
        else if (c < 0x20 || c >= 0x7f) { char b[8]; snprintf(b, sizeof b, "\\u%04x", c); o += b; }
        else o += char(c);
    }
    return o + "\"";
}
struct JObj {
    std::string s; bool first = true;
    JObj() : s("{") {}
    JObj &raw(const std::string &k, const std::string &v) { if (!first) s += ","; first = false; s += jesc(k) + ":" + v; return *this; }
    JObj &kv(const std::string &k, const std::string &v) { return raw(k, jesc(v)); }
    JObj &kv(const std::string &k, const char *v) { return raw(k, jesc(v)); }
    JObj &kv(const std::string &k, long long v) { return raw(k, std::to_string(v)); }
    JObj &kv(const std::string &k, unsigned long long v) { return raw(k, std::to_string(v)); }
    JObj &kv(const std::string &k, long v) { return raw(k, std::to_string(v)); }
    JObj &kv(const std::string &k, unsigned long v) { return raw(k, std::to_string(v)); }
    JObj &kv(const std::string &k, int v) { return raw(k, std::to_string(v)); }
    JObj &kv(const std::string &k, unsigned v) { return raw(k, std::to_string(v)); }
    JObj &kv(const std::string &k, bool v) { return raw(k, v ? "true" : "false"); }
    JObj &kv(const std::string &k, double v) { char b[64]; if (std::isfinite(v)) snprintf(b, sizeof b, "%.9g", v); else snprintf(b, sizeof b, "\"%f\"", v); return raw(k, b); }
    std::string str() const { return s + "}"; }
};
struct JArr {
    std::string s; bool first = true;
    JArr() : s("[") {}
    JArr &raw(const std::string &v) { if (!first) s += ","; first = false; s += v; return *this; }
    JArr &add(const std::string &v) { return raw(jesc(v)); }
    JArr &add(long long v) { return raw(std::to_string(v)); }
    std::string str() const { return s + "]"; }
};

// ---------- guard-page buffer: last legal byte is the last byte before a PROT_NONE page ----------
struct GuardBuf {
    uint8_t *base = nullptr; size_t pages = 0; size_t pagesz = 4096;
    explicit GuardBuf(size_t max_len = 4096) {
        pagesz = sysconf(_SC_PAGESIZE);
        pages = (max_len + pagesz - 1) / pagesz; if (!pages) pages = 1;
        base = (uint8_t*)mmap(nullptr, (pages + 2) * pagesz, PROT_READ|PROT_WRITE, MAP_PRIVATE|MAP_ANONYMOUS, -1, 0);
        if (base == MAP_FAILED) { perror("mmap"); _exit(3); }
        mprotect(base, pagesz, PROT_NONE);                       // guard before
        mprotect(base + (pages + 1) * pagesz, pagesz, PROT_NONE); // guard after
    }
    ~GuardBuf() { if (base) munmap(base, (pages + 2) * pagesz); }
    GuardBuf(const GuardBuf&) = delete;
    uint8_t *end() const { return base + (pages + 1) * pagesz; }
    // returns pointer p such that [p, p+len) is readable/writable and p+len is the guard page
    uint8_t *place(const void *src, size_t len) { uint8_t *p = end() - len; if (src && len) memcpy(p, src, len); return p; }
    // buffer starting right after the leading guard page (to catch under-reads)
    uint8_t *place_front(const void *src, size_t len) { uint8_t *p = base + pagesz; if (src && len) memcpy(p, src, len); return p; }
};

// command line helpers
inline const char *argval(int argc, char **argv, const char *name, const char *def = nullptr) {
    for (int i = 1; i + 1 < argc; ++i) if (!strcmp(argv[i], name)) return argv[i+1];
    return def;
}
inline bool argflag(int argc, char **argv, const char *name) {
    for (int i = 1; i < argc; ++i) if (!strcmp(argv[i], name)) return true;
    return false;
}

} // namespace vf
