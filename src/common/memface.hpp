// In-memory table source with strict borrow bookkeeping (environment model for C01/C10/C16).
#pragma once
#include <cstdint>
#include <cstdio>
#include <cstdlib>
#include <cstring>
#include <map>
#include <set>
#include <string>
#include <vector>
#include <graphite2/Font.h>

namespace vf {

typedef std::vector<uint8_t> Bytes;

inline uint32_t be32(const uint8_t *p) { return (uint32_t(p[0])<<24)|(uint32_t(p[1])<<16)|(uint32_t(p[2])<<8)|p[3]; }
inline uint16_t be16(const uint8_t *p) { return uint16_t((p[0]<<8)|p[1]); }
inline void put32(Bytes &b, uint32_t v) { b.push_back(v>>24); b.push_back(v>>16); b.push_back(v>>8); b.push_back(v); }
inline void put16(Bytes &b, uint32_t v) { b.push_back(v>>8); b.push_back(v); }
inline void set32(uint8_t *p, uint32_t v) { p[0]=v>>24; p[1]=v>>16; p[2]=v>>8; p[3]=v; }
inline void set16(uint8_t *p, uint32_t v) { p[0]=v>>8; p[1]=v; }

inline bool read_file(const std::string &path, Bytes &out) {
    FILE *f = fopen(path.c_str(), "rb"); if (!f) return false;
    fseek(f, 0, SEEK_END); long n = ftell(f); fseek(f, 0, SEEK_SET);
    out.resize(n); size_t r = n ? fread(out.data(), 1, n, f) : 0; fclose(f); return r == size_t(n);
}

struct TableSet {
    std::map<uint32_t, Bytes> t;
    // parse an sfnt container (lenient: skips tables that do not fit)
    bool from_sfnt(const Bytes &d) {
        t.clear();
        if (d.size() < 12) return false;
        unsigned n = be16(&d[4]);
        if (12 + 16u*n > d.size()) return false;
        for (unsigned i = 0; i < n; ++i) {
            const uint8_t *r = &d[12 + 16*i];
            uint32_t tag = be32(r), off = be32(r+8), len = be32(r+12);
            if (uint64_t(off) + len > d.size()) continue;
            t[tag] = Bytes(d.begin()+off, d.begin()+off+len);
        }
        return true;
    }
    bool from_file(const std::string &p) { Bytes d; return read_file(p, d) && from_sfnt(d); }
    Bytes to_sfnt() const {
        Bytes out; unsigned n = t.size();
        put32(out, 0x00010000); put16(out, n); put16(out, 0); put16(out, 0); put16(out, 0);
        uint32_t off = 12 + 16*n;
        for (auto &kv : t) { put32(out, kv.first); put32(out, 0); put32(out, off); put32(out, kv.second.size()); off += (kv.second.size()+3)&~3u; }
        for (auto &kv : t) { out.insert(out.end(), kv.second.begin(), kv.second.end()); while (out.size() & 3) out.push_back(0); }
        return out;
    }
};

inline std::string tagstr(uint32_t t) { char b[5] = { char(t>>24), char(t>>16), char(t>>8), char(t), 0 }; return b; }
inline uint32_t mktag(const char *s) { return (uint32_t(uint8_t(s[0]))<<24)|(uint32_t(uint8_t(s[1]))<<16)|(uint32_t(uint8_t(s[2]))<<8)|uint8_t(s[3]); }

// The memory face: every get_table hands out a fresh exact-size heap copy so that ASan sees any
// over-read and any use after release; outstanding pointers are tracked.
struct MemFace {
    const TableSet *ts = nullptr;
    std::map<const void*, uint32_t> outstanding;
    unsigned long n_get = 0, n_release = 0;
    unsigned long bad_release = 0;      // release of a pointer that is not outstanding
    bool no_release_fn = false;
    // environment deviation: for tag dev_tag answer with dev_kind (1: NULL, 2: len 0, 3: len 3)
    uint32_t dev_tag = 0; int dev_kind = 0;
    std::vector<uint32_t> log_get;      // tags requested, in order (bounded)

    static const void *get_table(const void *h, unsigned int name, size_t *len) {
        MemFace *self = (MemFace*)h;
        self->n_get++;
        if (self->log_get.size() < 4096) self->log_get.push_back(name);
        auto it = self->ts->t.find(name);
        if (it == self->ts->t.end()) { if (len) *len = 0; return nullptr; }
        size_t n = it->second.size();
        if (self->dev_kind && name == self->dev_tag) {
            if (self->dev_kind == 1) { if (len) *len = 0; return nullptr; }
            if (self->dev_kind == 2) n = 0;
            if (self->dev_kind == 3) n = n < 3 ? n : 3;
        }
        void *p = malloc(n ? n : 1);
        if (n) memcpy(p, it->second.data(), n);
        if (len) *len = n;
        self->outstanding[p] = name;
        return p;
    }
    static void release_table(const void *h, const void *buf) {
        MemFace *self = (MemFace*)h;
        self->n_release++;
        auto it = self->outstanding.find(buf);
        if (it == self->outstanding.end()) { self->bad_release++; return; }
        self->outstanding.erase(it);
        free(const_cast<void*>(buf));
    }
    gr_face_ops ops() const {
        gr_face_ops o = { sizeof(gr_face_ops), &MemFace::get_table, no_release_fn ? nullptr : &MemFace::release_table };
        return o;
    }
    gr_face *make(unsigned opts) { gr_face_ops o = ops(); return gr_make_face_with_ops(this, &o, opts); }
    // for the no-release variant: free what the library could never give back
    void drop_outstanding() { for (auto &kv : outstanding) free(const_cast<void*>(kv.first)); outstanding.clear(); }
};

} // namespace vf
