// Shared enumeration of (shipped font, corpus item, direction) cases and a per-child face cache.
#pragma once
#include "fonts.hpp"
#include "dump.hpp"
#include "check_main.hpp"

namespace vf {

struct CorpusCase { int font; int item; int dir; };

struct Corpus {
    std::vector<std::string> fonts;                   // file names under tests/fonts (or absolute paths)
    std::vector<std::vector<std::string>> items;      // per font: lines and words of its corpus
    std::vector<CorpusCase> cases;
    std::vector<bool> rtl;

    // fonts: indices into shipped_fonts() (empty = all that are expected to load)
    void build(const std::vector<std::string> &only_fonts, size_t max_items, const std::vector<int> &dirs, bool words = true) {
        fonts.clear(); items.clear(); cases.clear(); rtl.clear();
        for (auto &sf : shipped_fonts()) {
            if (!only_fonts.empty()) { bool hit = false; for (auto &n : only_fonts) if (n == sf.file) hit = true; if (!hit) continue; }
            if (std::string(sf.file) == "tiny.ttf") continue;   // no Silf: not a Graphite font
            int fi = int(fonts.size()); fonts.push_back(sf.file); rtl.push_back(sf.rtl);
            items.push_back(corpus_items(sf.corpus, max_items, words));
            // short synthetic strings too: empty text, one char, repeated char
            items.back().push_back(""); items.back().push_back("a"); items.back().push_back("aaaa \xE2\x80\x8D b");
            for (int it = 0; it < int(items.back().size()); ++it) for (int d : dirs) cases.push_back({ fi, it, d });
        }
    }
    JObj describe(uint64_t i) const { const CorpusCase &c = cases[i]; JObj o; o.kv("font", fonts[c.font]).kv("text_utf8_hex", hex(items[c.font][c.item].data(), items[c.font][c.item].size())).kv("dir", c.dir); return o; }
};

struct FaceCache {
    struct Ent { TableSet ts; MemFace mf; gr_face *face = nullptr; };
    std::map<std::pair<std::string, unsigned>, Ent*> m;
    gr_face *get(const std::string &font, unsigned opts, MemFace **mf = nullptr) {
        auto key = std::make_pair(font, opts); auto it = m.find(key);
        if (it == m.end()) { Ent *e = new Ent; e->ts.from_file(font[0] == '/' ? font : font_path(font)); e->mf.ts = &e->ts; e->face = e->mf.make(opts); it = m.insert({ key, e }).first; }
        if (mf) *mf = &it->second->mf;
        return it->second->face;
    }
};

} // namespace vf
