// Common main() skeleton: a check binary is a list of named sub-checks, each an indexed case space.
// Protocol on stdout (consumed by bin/verif):
//   RESULT {json}   one per sub-check run
//   FAIL {json}     one per failing case (descriptor contains "sub" and "case")
#pragma once
#include "shard.hpp"

namespace vf {

struct Tier { bool thorough = false; const char *name() const { return thorough ? "thorough" : "quick"; } };

struct Sub {
    std::string name;
    // fills r.ncases, r.body, r.describe (and tunes alarms); may set budget share
    std::function<void(Runner&, const Tier&)> setup;
    double budget_quick = 60, budget_thorough = 600;
    std::function<void(const Runner&, JObj&)> extra;   // extra evidence fields, e.g. named counters
    std::vector<std::string> counter_names;
};

inline int check_main(int argc, char **argv, const char *prop, std::vector<Sub> subs) {
    Tier tier; tier.thorough = !strcmp(argval(argc, argv, "--tier", "quick"), "thorough");
    const char *only = argval(argc, argv, "--sub");
    const char *replay = argval(argc, argv, "--case");
    double scale = atof(argval(argc, argv, "--budget-scale", "1"));
    int nshards = atoi(argval(argc, argv, "--shards", "16"));
    setvbuf(stdout, nullptr, _IOLBF, 0);
    int rc = 0;
    for (auto &sub : subs) {
        if (only && sub.name != only) continue;
        Runner r; r.name = std::string(prop) + "_" + sub.name; r.nshards = nshards;
        r.deadline_s = (tier.thorough ? sub.budget_thorough : sub.budget_quick) * scale;
        if (const char *ho = argval(argc, argv, "--hash-out")) r.hash_out = std::string(ho) + "." + sub.name;
        sub.setup(r, tier);
        if (replay) {
            uint64_t idx = strtoull(replay, nullptr, 10);
            if (idx >= r.ncases) { printf("replay: case %llu out of range (%llu)\n", (unsigned long long)idx, (unsigned long long)r.ncases); return 2; }
            if (r.describe) printf("REPLAY %s\n", r.describe(idx).str().c_str());
            r.replay(idx);
            printf("REPLAY-DONE\n");
            return 0;
        }
        r.run();
        JObj o; o.kv("sub", sub.name).kv("cases", (unsigned long long)r.ncases).kv("evaluations", (unsigned long long)r.total_done)
            .kv("classes", (unsigned long long)r.classes.size()).kv("exhaustive", r.exhaustive)
            .kv("covered_prefix", (unsigned long long)r.covered_prefix).kv("wall_s", r.wall)
            .kv("failures", (unsigned long long)r.failures.size()).kv("unconfirmed_crashes", r.unconfirmed).kv("class_cap_hit", r.class_cap_hit);
        JObj cn; for (size_t i = 0; i < sub.counter_names.size() && i < NCOUNTERS; ++i) cn.kv(sub.counter_names[i], (unsigned long long)r.counters[i]);
        o.raw("counters", cn.str());
        JArr sm; if (r.describe && r.ncases) { sm.raw(r.describe(0).str()); if (r.ncases > 2) sm.raw(r.describe(r.ncases / 2).str()); if (r.ncases > 1) sm.raw(r.describe(r.ncases - 1).str()); }
        o.raw("samples", sm.str());
        if (sub.extra) sub.extra(r, o);
        printf("RESULT %s\n", o.str().c_str());
        for (auto &f : r.failures) {
            // make sure each failure carries its sub-check name
            std::string line = f;
            if (line.find("\"sub\"") == std::string::npos && line.size() > 1) line = "{\"sub\":" + jesc(sub.name) + "," + line.substr(1);
            printf("FAIL %s\n", line.c_str());
            rc = 1;
        }
    }
    fflush(stdout);
    return rc;
}

} // namespace vf
