// Canonical, address-free dumps of a face and of a segment, through the public API only.
#pragma once
#include "util.hpp"
#include <cstdarg>
#include <graphite2/Font.h>
#include <graphite2/Segment.h>

namespace vf {

inline void appf(std::string &s, const char *fmt, ...) __attribute__((format(printf, 2, 3)));
inline void appf(std::string &s, const char *fmt, ...) {
    char b[256]; va_list ap; va_start(ap, fmt); int n = vsnprintf(b, sizeof b, fmt, ap); va_end(ap);
    if (n > 0) s.append(b, size_t(n) < sizeof b ? n : sizeof b - 1);
}

struct SegDumpOpts {
    bool positions = true;      // origins / advances
    bool bases = true;          // gr_cinfo_base
    bool attrs = true;          // a selection of gr_slot_attr values
    const gr_face *face = nullptr; const gr_font *font = nullptr;  // for gr_slot_advance_X/Y
    unsigned num_user = 4;      // user attributes 0..3 (reads beyond the font's count return 0)
};

// collects the slots of a segment by following next from first; bounded walk
inline std::vector<const gr_slot*> seg_slots(gr_segment *seg, bool *overrun = nullptr) {
    std::vector<const gr_slot*> v; unsigned n = gr_seg_n_slots(seg); size_t cap = size_t(n) + 4;
    for (const gr_slot *s = gr_seg_first_slot(seg); s; s = gr_slot_next_in_segment(s)) {
        if (v.size() >= cap) { if (overrun) *overrun = true; break; }
        v.push_back(s);
    }
    return v;
}

inline std::string dump_segment(gr_segment *seg, const SegDumpOpts &o = SegDumpOpts()) {
    std::string d;
    if (!seg) return "NULLSEG";
    bool over = false; std::vector<const gr_slot*> sl = seg_slots(seg, &over);
    std::map<const gr_slot*, int> pos; for (size_t i = 0; i < sl.size(); ++i) pos[sl[i]] = int(i);
    auto P = [&](const gr_slot *s) { if (!s) return -1; auto it = pos.find(s); return it == pos.end() ? -2 : it->second; };
    appf(d, "seg n=%u nc=%u%s", gr_seg_n_slots(seg), gr_seg_n_cinfo(seg), over ? " OVERRUN" : "");
    if (o.positions) appf(d, " adv=%.9g,%.9g", gr_seg_advance_X(seg), gr_seg_advance_Y(seg));
    d += "\n";
    for (size_t i = 0; i < sl.size(); ++i) {
        const gr_slot *s = sl[i];
        appf(d, "%zu g%u i%u b%d a%d o%d p%d c%d s%d ins%d", i, gr_slot_gid(s), gr_slot_index(s), gr_slot_before(s), gr_slot_after(s),
             gr_slot_original(s), P(gr_slot_attached_to(s)), P(gr_slot_first_attachment(s)), P(gr_slot_next_sibling_attachment(s)), gr_slot_can_insert_before(s));
        if (o.positions) appf(d, " @%.9g,%.9g +%.9g,%.9g", gr_slot_origin_X(s), gr_slot_origin_Y(s), gr_slot_advance_X(s, o.face, o.font), gr_slot_advance_Y(s, o.face, o.font));
        if (o.attrs) {
            static const gr_attrCode codes[] = { gr_slatAdvX, gr_slatAdvY, gr_slatAttX, gr_slatAttY, gr_slatAttWithX, gr_slatAttWithY, gr_slatAttLevel, gr_slatBreak,
                gr_slatDir, gr_slatInsert, gr_slatShiftX, gr_slatShiftY, gr_slatJWidth, gr_slatSegSplit, gr_slatBidiLevel, gr_slatColFlags, gr_slatColShiftx, gr_slatColShifty };
            d += " A";
            for (gr_attrCode c : codes) appf(d, ",%d", gr_slot_attr(s, seg, c, 0));
            for (unsigned u = 0; u < o.num_user; ++u) appf(d, ",u%d", gr_slot_attr(s, seg, gr_slatUserDefn, uint8_t(u)));
        }
        d += "\n";
    }
    unsigned nc = gr_seg_n_cinfo(seg);
    for (unsigned i = 0; i < nc; ++i) {
        const gr_char_info *c = gr_seg_cinfo(seg, i);
        if (!c) { appf(d, "c%u NULL\n", i); continue; }
        appf(d, "c%u U+%04X bw%d a%d b%d", i, gr_cinfo_unicode_char(c), gr_cinfo_break_weight(c), gr_cinfo_after(c), gr_cinfo_before(c));
        if (o.bases) appf(d, " base%zu", gr_cinfo_base(c));
        d += "\n";
    }
    return d;
}

// decode a label in one of the three encodings into a scalar sequence rendered as text
inline std::string label_scalars(const void *p, gr_encform enc, uint32_t len, bool *terminated) {
    std::string s; if (!p) { *terminated = true; return "(null)"; }
    *terminated = true;
    if (enc == gr_utf8) { const uint8_t *b = (const uint8_t*)p; s = hex(b, len); *terminated = b[len] == 0; s = "8:" + s; }
    else if (enc == gr_utf16) { const uint16_t *b = (const uint16_t*)p; for (uint32_t i = 0; i < len; ++i) appf(s, "%04x", b[i]); *terminated = b[len] == 0; s = "16:" + s; }
    else { const uint32_t *b = (const uint32_t*)p; for (uint32_t i = 0; i < len; ++i) appf(s, "%06x", b[i]); *terminated = b[len] == 0; s = "32:" + s; }
    return s;
}

struct FaceDumpOpts { bool labels = true; std::vector<uint32_t> probe_chars; };

inline std::vector<uint32_t> default_probe_chars() {
    std::vector<uint32_t> v;
    for (uint32_t c = 0; c < 0x180; ++c) v.push_back(c);
    static const uint32_t extra[] = { 0x200B, 0x200C, 0x200D, 0x200E, 0x200F, 0x2028, 0x25CC, 0x0627, 0x0628, 0x064B, 0x1000, 0x1001, 0x102F, 0x1039, 0x0915, 0x094D,
        0xD7FF, 0xD800, 0xDFFF, 0xE000, 0xFEFF, 0xFFFD, 0xFFFE, 0xFFFF, 0x10000, 0x10020, 0x10061, 0x10062, 0x10063, 0x1FFFF, 0x20000, 0x20061, 0xE0000, 0x100041, 0x10FFFD, 0x10FFFE, 0x10FFFF, 0x110000, 0xFFFFFFFF };
    for (uint32_t c : extra) v.push_back(c);
    return v;
}

inline std::string dump_face(const gr_face *face, const FaceDumpOpts &o = FaceDumpOpts()) {
    std::string d;
    if (!face) return "NULLFACE";
    appf(d, "glyphs=%u nfref=%u nlang=%u\n", gr_face_n_glyphs(face), gr_face_n_fref(face), gr_face_n_languages(face));
    const gr_faceinfo *fi = gr_face_info(face, 0);
    if (fi) appf(d, "info asc=%u desc=%u upem=%u sp=%d bidi=%u le=%u just=%u\n", fi->extra_ascent, fi->extra_descent, fi->upem, int(fi->space_contextuals), fi->has_bidi_pass, fi->line_ends, fi->justifies);
    else d += "info NULL\n";
    unsigned nf = gr_face_n_fref(face);
    gr_feature_val *defs = gr_face_featureval_for_lang(face, 0);
    for (unsigned i = 0; i < nf; ++i) {
        const gr_feature_ref *f = gr_face_fref(face, uint16_t(i));
        if (!f) { appf(d, "f%u NULL\n", i); continue; }
        unsigned nv = gr_fref_n_values(f);
        appf(d, "f%u id=%08x nv=%u def=%u find=%d vals=", i, gr_fref_id(f), nv, gr_fref_feature_value(f, defs), gr_face_find_fref(face, gr_fref_id(f)) == f);
        for (unsigned k = 0; k < nv; ++k) appf(d, "%d,", gr_fref_value(f, uint16_t(k)));
        d += "\n";
        if (o.labels) {
            static const int encs[] = { 1, 2, 4 };
            for (int enc : encs) {
                uint16_t lang = 0x409; uint32_t len = 0; void *l = gr_fref_label(f, &lang, gr_encform(enc), &len);
                bool term; std::string sc = label_scalars(l, gr_encform(enc), len, &term);
                appf(d, " L%d lang=%x len=%u t=%d ", enc, lang, len, term); d += sc; d += "\n";
                if (l) gr_label_destroy(l);
            }
            for (unsigned k = 0; k < nv && k < 8; ++k) {
                uint16_t lang = 0x409; uint32_t len = 0; void *l = gr_fref_value_label(f, uint16_t(k), &lang, gr_utf8, &len);
                bool term; std::string sc = label_scalars(l, gr_utf8, len, &term);
                appf(d, " V%u lang=%x len=%u t=%d ", k, lang, len, term); d += sc; d += "\n";
                if (l) gr_label_destroy(l);
            }
        }
    }
    // out-of-range accessors must be safe
    appf(d, "fref_oob=%d\n", gr_face_fref(face, uint16_t(nf)) == nullptr);
    unsigned nl = gr_face_n_languages(face);
    for (unsigned i = 0; i < nl && i < 400; ++i) {
        uint32_t lg = gr_face_lang_by_index(face, uint16_t(i));
        gr_feature_val *fv = gr_face_featureval_for_lang(face, lg);
        appf(d, "lang%u %08x:", i, lg);
        for (unsigned k = 0; k < nf; ++k) { const gr_feature_ref *f = gr_face_fref(face, uint16_t(k)); appf(d, "%u,", f ? gr_fref_feature_value(f, fv) : 0u); }
        d += "\n";
        gr_featureval_destroy(fv);
    }
    gr_featureval_destroy(defs);
    const std::vector<uint32_t> probes = o.probe_chars.empty() ? default_probe_chars() : o.probe_chars;
    d += "sup=";
    for (uint32_t c : probes) d += gr_face_is_char_supported(face, c, 0) ? '1' : '0';
    d += "\n";
    return d;
}

} // namespace vf
