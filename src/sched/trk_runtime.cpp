// E-sched runtime: our own implementation of the __tsan_* instrumentation ABI (the library is compiled with
// -fsanitize=thread instrumentation only and linked against THIS file instead of libtsan).
//  * every instrumented access is classified private (own stack / own arena) or shared;
//  * RECORD phase: per-thread shared read/write granule sets are collected;
//  * EXPLORE phase: accesses to granules in the dependent set are scheduling points of a serialising scheduler
//    (one token, semaphore hand-off) driven by a choice list; decisions are logged for the explorer.
// Compiled WITHOUT -fsanitize=thread.
#include <cstddef>
#include <cstdint>
#include <cstring>
#include <cstdio>
#include <cstdlib>
#include <pthread.h>
#include <semaphore.h>
#include <sys/mman.h>
#include <unistd.h>
#include <unordered_map>
#include <unordered_set>
#include <vector>
#include "trk.h"

extern "C" { void *__libc_malloc(size_t); void __libc_free(void*); void *__libc_calloc(size_t, size_t); void *__libc_realloc(void*, size_t); }

namespace {
const int MAXT = TRK_MAXT;
struct Arena { char *base; size_t used, cap; };
Arena g_arena[MAXT];
struct Acc { uint64_t first_pc; uint32_t reads, writes; };
struct TLog { uint64_t sh_reads = 0, sh_writes = 0, priv = 0; std::unordered_map<uintptr_t, Acc> *g = nullptr; };
TLog g_log[MAXT];
__thread int t_id = -1; __thread bool t_in = false; __thread uintptr_t t_slo, t_shi;
int g_phase = TRK_OFF;
std::unordered_set<uintptr_t> *g_dep = nullptr;      // dependent granules (explore phase)

// ---- scheduler ----
sem_t g_sem[MAXT]; sem_t g_done_sem; int g_n = 0; bool g_started[MAXT], g_finished[MAXT]; int g_running = -1;
const int *g_choices = nullptr; int g_nchoices = 0; int g_point = 0;
trk_decision g_decisions[TRK_MAXDEC]; int g_ndec = 0; bool g_divergence = false;

int enabled_list(int me, int *out) { int n = 0; if (me >= 0 && !g_finished[me]) out[n++] = me; for (int i = 0; i < g_n; ++i) if (i != me && !g_finished[i]) out[n++] = i; return n; }
void hand_to(int next) { g_running = next; sem_post(&g_sem[next]); }
void sched_point(uintptr_t granule, bool is_write, uint64_t pc) {
    int en[MAXT]; int n = enabled_list(t_id, en);
    int idx = g_point++; int choice = idx < g_nchoices ? g_choices[idx] : 0;
    if (choice >= n) { g_divergence = true; choice = 0; }
    if (g_ndec < TRK_MAXDEC) { trk_decision &d = g_decisions[g_ndec++]; d.thread = t_id; d.enabled = n; d.choice = choice; d.granule = granule; d.is_write = is_write; d.pc = pc; }
    if (choice != 0) { int me = t_id; hand_to(en[choice]); sem_wait(&g_sem[me]); }
}

inline bool in_arena(int id, uintptr_t a) { return g_arena[id].base && a >= (uintptr_t)g_arena[id].base && a < (uintptr_t)g_arena[id].base + g_arena[id].cap; }
inline void acc(const void *p, size_t n, bool w, uint64_t pc) {
    if (t_id < 0 || t_in || g_phase == TRK_OFF) return;
    uintptr_t a = (uintptr_t)p; if (a >= t_slo && a < t_shi) return;
    if (in_arena(t_id, a)) { g_log[t_id].priv++; return; }
    t_in = true;
    for (uintptr_t g = a >> 3; g <= (a + (n ? n - 1 : 0)) >> 3; ++g) {
        if (w) g_log[t_id].sh_writes++; else g_log[t_id].sh_reads++;
        Acc &e = (*g_log[t_id].g)[g]; if (!e.reads && !e.writes) e.first_pc = pc; if (w) e.writes++; else e.reads++;
        if (g_phase == TRK_EXPLORE && g_dep && g_dep->count(g)) { t_in = false; sched_point(g, w, pc); t_in = true; }
    }
    t_in = false;
}
} // namespace

#define PC ((uint64_t)__builtin_return_address(0))
extern "C" {
void __tsan_init() {} void __tsan_func_entry(void *) {} void __tsan_func_exit() {}
void __tsan_read1(void *p) { acc(p, 1, 0, PC); } void __tsan_read2(void *p) { acc(p, 2, 0, PC); } void __tsan_read4(void *p) { acc(p, 4, 0, PC); } void __tsan_read8(void *p) { acc(p, 8, 0, PC); } void __tsan_read16(void *p) { acc(p, 16, 0, PC); }
void __tsan_write1(void *p) { acc(p, 1, 1, PC); } void __tsan_write2(void *p) { acc(p, 2, 1, PC); } void __tsan_write4(void *p) { acc(p, 4, 1, PC); } void __tsan_write8(void *p) { acc(p, 8, 1, PC); } void __tsan_write16(void *p) { acc(p, 16, 1, PC); }
void __tsan_unaligned_read2(void *p) { acc(p, 2, 0, PC); } void __tsan_unaligned_read4(void *p) { acc(p, 4, 0, PC); } void __tsan_unaligned_read8(void *p) { acc(p, 8, 0, PC); } void __tsan_unaligned_read16(void *p) { acc(p, 16, 0, PC); }
void __tsan_unaligned_write2(void *p) { acc(p, 2, 1, PC); } void __tsan_unaligned_write4(void *p) { acc(p, 4, 1, PC); } void __tsan_unaligned_write8(void *p) { acc(p, 8, 1, PC); } void __tsan_unaligned_write16(void *p) { acc(p, 16, 1, PC); }
void __tsan_vptr_read(void **p) { acc(p, 8, 0, PC); } void __tsan_vptr_update(void **p, void *) { acc(p, 8, 1, PC); }
void __tsan_read_range(void *p, size_t n) { acc(p, n, 0, PC); } void __tsan_write_range(void *p, size_t n) { acc(p, n, 1, PC); }
// atomics are not used by the library; if a mutant introduces them they are treated as plain accesses
void __tsan_atomic_thread_fence(int) {} void __tsan_atomic_signal_fence(int) {}

// memory intrinsics: clang 14's TSan pass turns llvm.mem* into calls to the libc names, so they are interposed here
void *memcpy(void *d, const void *s, size_t n) { if (t_id >= 0 && !t_in && n) { acc(s, n, 0, PC); acc(d, n, 1, PC); } char *dd = (char*)d; const char *ss = (const char*)s; for (size_t i = 0; i < n; ++i) dd[i] = ss[i]; return d; }
void *memmove(void *d, const void *s, size_t n) { if (t_id >= 0 && !t_in && n) { acc(s, n, 0, PC); acc(d, n, 1, PC); } char *dd = (char*)d; const char *ss = (const char*)s; if (dd < ss) for (size_t i = 0; i < n; ++i) dd[i] = ss[i]; else for (size_t i = n; i; --i) dd[i-1] = ss[i-1]; return d; }
void *memset(void *d, int c, size_t n) { if (t_id >= 0 && !t_in && n) acc(d, n, 1, PC); char *dd = (char*)d; for (size_t i = 0; i < n; ++i) dd[i] = (char)c; return d; }

// allocator: a tracked thread allocates from its private bump arena
void *malloc(size_t n) { if (t_id >= 0 && !t_in) { Arena &A = g_arena[t_id]; size_t need = (n + 16 + 15) & ~size_t(15); if (A.used + need > A.cap) { fprintf(stderr, "trk: arena exhausted\n"); _exit(9); } char *b = A.base + A.used; A.used += need; *(size_t*)b = n; return b + 16; } return __libc_malloc(n); }
void free(void *p) { if (!p) return; for (int i = 0; i < MAXT; ++i) if (in_arena(i, (uintptr_t)p)) return; __libc_free(p); }
void *calloc(size_t a, size_t b) { if (t_id >= 0 && !t_in) { void *p = malloc(a * b); char *c = (char*)p; for (size_t i = 0; i < a * b; ++i) c[i] = 0; return p; } return __libc_calloc(a, b); }
void *realloc(void *p, size_t n) { if (p) for (int i = 0; i < MAXT; ++i) if (in_arena(i, (uintptr_t)p)) { size_t old = *(size_t*)((char*)p - 16); void *q = malloc(n); char *dq = (char*)q, *sp = (char*)p; for (size_t k = 0; k < (old < n ? old : n); ++k) dq[k] = sp[k]; return q; }
    if (t_id >= 0 && !t_in) { if (p) { fprintf(stderr, "trk: realloc of a shared block inside a tracked thread\n"); _exit(9); } return malloc(n); } return __libc_realloc(p, n); }

// ---- control API (see trk.h) ----
void trk_thread_begin(int id) {
    pthread_attr_t a; pthread_getattr_np(pthread_self(), &a); void *sa; size_t ss; pthread_attr_getstack(&a, &sa, &ss); pthread_attr_destroy(&a); t_slo = (uintptr_t)sa; t_shi = t_slo + ss;
    if (!g_arena[id].base) { g_arena[id].cap = 512u << 20; g_arena[id].base = (char*)mmap(0, g_arena[id].cap, PROT_READ|PROT_WRITE, MAP_PRIVATE|MAP_ANONYMOUS|MAP_NORESERVE, -1, 0); }
    g_arena[id].used = 0;
    if (!g_log[id].g) g_log[id].g = new std::unordered_map<uintptr_t, Acc>();
    t_id = id;     // only now: everything above may allocate
}
void trk_thread_end() { t_id = -1; }
// the main thread builds the SHARED objects (face, font) inside a resettable arena of its own so that every schedule
// sees them at identical addresses; accesses made while building are not events (phase is OFF then)
void trk_shared_begin() { trk_thread_begin(TRK_MAXT - 1); }
void trk_shared_end() { t_id = -1; }
void trk_set_phase(int ph) { g_phase = ph; }
void trk_reset_logs() { for (int i = 0; i < MAXT; ++i) { g_log[i].sh_reads = g_log[i].sh_writes = g_log[i].priv = 0; if (g_log[i].g) g_log[i].g->clear(); } }
void trk_counts(int id, unsigned long long *sr, unsigned long long *sw, unsigned long long *pr, unsigned long long *granules_r, unsigned long long *granules_w) {
    *sr = g_log[id].sh_reads; *sw = g_log[id].sh_writes; *pr = g_log[id].priv; unsigned long long gr = 0, gw = 0; if (g_log[id].g) for (auto &kv : *g_log[id].g) { if (kv.second.reads) ++gr; if (kv.second.writes) ++gw; } *granules_r = gr; *granules_w = gw; }
// dependent granules: written by one thread and accessed by another; fills out[] with up to max entries, returns the total count, and installs them as scheduling points
int trk_dependent(int nthreads, trk_conflict *out, int max) {
    if (!g_dep) g_dep = new std::unordered_set<uintptr_t>(); int total = 0;
    for (int i = 0; i < nthreads; ++i) if (g_log[i].g) for (auto &kv : *g_log[i].g) { if (!kv.second.writes) continue;
        for (int j = 0; j < nthreads; ++j) { if (j == i || !g_log[j].g) continue; auto it = g_log[j].g->find(kv.first); if (it == g_log[j].g->end()) continue;
            if (g_dep->insert(kv.first).second) { if (total < max) { out[total].granule = kv.first << 3; out[total].writer = i; out[total].other = j; out[total].writer_pc = kv.second.first_pc; out[total].other_pc = it->second.first_pc; out[total].other_writes = it->second.writes != 0; } ++total; } } }
    return total; }
int trk_dependent_count() { return g_dep ? (int)g_dep->size() : 0; }
void trk_clear_dependent() { if (g_dep) g_dep->clear(); }

void trk_sched_begin(int n, const int *choices, int nchoices) { g_n = n; g_choices = choices; g_nchoices = nchoices; g_point = 0; g_ndec = 0; g_divergence = false; g_running = -1;
    for (int i = 0; i < n; ++i) { sem_init(&g_sem[i], 0, 0); g_started[i] = false; g_finished[i] = false; } sem_init(&g_done_sem, 0, 0); }
void trk_sched_thread_enter(int id) { sem_wait(&g_sem[id]); g_started[id] = true; }            // called by the thread before it touches anything
void trk_sched_thread_exit(int id) { g_finished[id] = true; int en[MAXT]; int n = enabled_list(-1, en); if (n) hand_to(en[0]); else sem_post(&g_done_sem); }
void trk_sched_go() { hand_to(0); sem_wait(&g_done_sem); }
int trk_sched_decisions(trk_decision *out, int max) { int n = g_ndec < max ? g_ndec : max; for (int i = 0; i < n; ++i) out[i] = g_decisions[i]; return g_ndec; }
int trk_sched_diverged() { return g_divergence ? 1 : 0; }
}
