// Control API of the access-tracking / scheduling runtime (src/sched/trk_runtime.cpp).
#pragma once
#include <stdint.h>
#ifdef __cplusplus
extern "C" {
#endif
enum { TRK_OFF = 0, TRK_RECORD = 1, TRK_EXPLORE = 2, TRK_MAXT = 4, TRK_MAXDEC = 4096 };
typedef struct { uint64_t granule; int writer, other; uint64_t writer_pc, other_pc; int other_writes; } trk_conflict;
typedef struct { int thread; int enabled; int choice; uint64_t granule; int is_write; uint64_t pc; } trk_decision;
void trk_thread_begin(int id); void trk_thread_end(void); void trk_shared_begin(void); void trk_shared_end(void);
void trk_set_phase(int ph); void trk_reset_logs(void);
void trk_counts(int id, unsigned long long *shared_reads, unsigned long long *shared_writes, unsigned long long *private_accesses, unsigned long long *granules_read, unsigned long long *granules_written);
int trk_dependent(int nthreads, trk_conflict *out, int max); int trk_dependent_count(void); void trk_clear_dependent(void);
void trk_sched_begin(int nthreads, const int *choices, int nchoices); void trk_sched_thread_enter(int id); void trk_sched_thread_exit(int id); void trk_sched_go(void);
int trk_sched_decisions(trk_decision *out, int max); int trk_sched_diverged(void);
#ifdef __cplusplus
}
#endif
