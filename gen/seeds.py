"""Seed fonts: S-min (tiny), S-full (every table kind), S-full-z (compressed), feature-table families."""
import os, struct, json
from fontgen import *


def tag(s):
    s = (s + '\0\0\0\0')[:4]
    return struct.unpack('>I', s.encode('latin1'))[0]


def s_min():
    # glyphs: 0 notdef, 1 space, 2 a, 3 b, 4 c, 5 x, 6 y
    glyphs = [dict(adv=500, attrs={5: i}) for i in range(7)]
    cm = {0x20: 1, 0x61: 2, 0x62: 3, 0x63: 4}
    a, b, c = {2}, {3}, {4}; ab = {2, 3}
    rules = [
        Rule(0, [a, b], A('PUT_GLYPH', 0, 0, 'NEXT', 'DELETE', 'NEXT', 'RET_ZERO'), name='a b > x _'),
        Rule(0, [ab], A('PUT_GLYPH', 0, 1, 'NEXT', 'RET_ZERO'), name='[ab] > y'),
    ]
    return dict(glyphs=glyphs, cmap=cm, num_attrs=16,
                silf=dict(passes=[dict(rules=rules)], classes=[[5], [6]]),
                names={256: 'Feature One', 257: 'Off', 258: 'On'},
                feats=[(tag('tst1'), 256, 0, [(0, 257), (1, 258)])], langs=[(tag('en'), [(tag('tst1'), 1)])])


def s_twoclass():
    """The same glyphs in two lookup classes with different member indices: 'a'/'b' after 'c' are substituted through class [b a], otherwise through class [a b]
    (a class search that remembers where it last found a glyph must not carry that over to another class)."""
    glyphs = [dict(adv=400 + 50 * i, attrs={5: i}) for i in range(7)]           # 0 notdef 1 space 2 a 3 b 4 c 5 x 6 y
    cm = {0x20: 1, 0x61: 2, 0x62: 3, 0x63: 4}
    ab = {2, 3}; c = {4}
    classes = [[5, 6], [2, 3], [3, 2], [3, 2, 4]]                                # 0 out [x y] (linear); 1 [a b]; 2 [b a]; 3 [b a c]
    rules = [
        Rule(1, [c, ab], A('PUT_SUBS', 0, 0, 2, 0, 0, 'NEXT', 'RET_ZERO'), name='[b a] > [x y] / c _'),
        Rule(0, [ab], A('PUT_SUBS', 0, 0, 1, 0, 0, 'NEXT', 'RET_ZERO'), name='[a b] > [x y]'),
    ]
    return dict(glyphs=glyphs, cmap=cm, num_attrs=16, silf=dict(passes=[dict(rules=rules)], classes=classes, nlinear=1, maxPre=1),
                names={256: 'Feature One', 257: 'Off', 258: 'On'}, feats=[(tag('tst1'), 256, 0, [(0, 257), (1, 258)])], langs=[])


# glyph ids of S-full
G = dict(notdef=0, space=1, a=2, b=3, c=4, d=5, x=6, y=7, z=8, acute=9, grave=10, pseudo=11, astral=12, lig=13, e=14, f=15)
# glyph attribute ids of S-full
GA = dict(pseudo=0, brk=1, bidi=2, mirror=3, mirror1=4, passbits=5, ga0=6, ga1=7, jstretch=8, jshrink=9, jstep=10, jweight=11, coll=12)


def octabox(sub=0):
    """Glat v3 per-glyph header: bitmap, diagonal box, sub boxes (each 8 bytes: rect 4 + diamond 4)."""
    if sub == 0: return dict(bitmap=0, diag=(0, 255, 0, 255), subs=[])
    subs = []; bitmap = 0
    for k in range(sub):
        bitmap |= 1 << (k * 5 % 16)
        subs.append((k * 40 % 200, min(255, k * 40 % 200 + 60), 0, 255, 0, 255, 0, 255))
    # byte order inside a box is (xmin, xmax, ymin, ymax) per readbox(p[0],p[2],p[1],p[3])
    return dict(bitmap=bitmap, diag=(0, 255, 0, 255), subs=subs)


def s_full(version=5, glat_version=3, compress=(), rtl=False, with_collision=True, subboxes=True, glyf=True, extra_attr_glyphs=0, dense_attrs=False, line_ends=False, cmap_edges=False, pass_bits=False, bad_glyph=None, bidi_pass=False, feat_pconstraint=False, just_step=1, many_pseudos=False, no_just=False, just_attached=False, bad_gid_char=None, lb_gid=0, excl_glyph=False, cmap12_conflict=False, gmetric=False):
    names = ['notdef', 'space', 'a', 'b', 'c', 'd', 'x', 'y', 'z', 'acute', 'grave', 'pseudo', 'astral', 'lig', 'e', 'f']
    glyphs = []
    for i, n in enumerate(names):
        attrs = {GA['ga0']: i, GA['ga1']: i % 3}
        adv = 600
        if n in ('acute', 'grave'):
            adv = 0; attrs[GA['bidi']] = 16
            if with_collision:
                c = GA['coll']
                attrs.update({c: 1, c + 1: (-200) & 0xFFFF, c + 2: (-200) & 0xFFFF, c + 3: 200, c + 4: 200, c + 5: 10, c + 6: 5})
        if n == 'space': attrs[GA['brk']] = 10; attrs[GA['jstretch']] = 400; attrs[GA['jshrink']] = 100; attrs[GA['jstep']] = just_step; attrs[GA['jweight']] = 1
        if n == 'pseudo': attrs[GA['pseudo']] = G['x']
        if pass_bits and n in ('c', 'd', 'e', 'f', 'space'): attrs[GA['passbits']] = 0b0110      # a segment made only of these glyphs skips passes 1 and 2
        if dense_attrs and n == 'e':          # a glyph that stores a value for EVERY attribute of the font (capacity == numAttrs)
            for k in range(34): attrs.setdefault(k, 1)
        if dense_attrs and n == 'd': attrs[33] = 9          # only the last attribute number
        g = dict(adv=adv, attrs=attrs, bbox=(0, 0 if adv else 500, 500, 700))
        if bidi_pass and n == 'a': attrs[GA['mirror']] = G['b']                       # mirrored whenever mirroring applies
        if bidi_pass and n == 'c': attrs[GA['mirror']] = G['d']; attrs[GA['mirror1']] = 1     # not mirrored when the segment direction has bit 2 set
        if bad_glyph == n: g['bbox'] = (100, 0, -100, 700)          # outline bounding box with xMin > xMax: this one glyph is unreadable
        if glat_version >= 3: g['octabox'] = octabox(2 if (subboxes and n in ('a', 'acute')) else (1 if subboxes and n == 'grave' else 0))
        glyphs.append(g)
    cm = {0x20: 1, 0x61: G['a'], 0x62: G['b'], 0x63: G['c'], 0x64: G['d'], 0x65: G['e'], 0x66: G['f'], 0x301: G['acute'], 0x300: G['grave'], 0x10000: G['astral'], 0x10400: G['astral']}
    if cmap_edges:      # first format 4 segment starts at U+0000, the closing segment FFFC..FFFF carries real mappings
        cm.update({0: G['x'], 1: G['y'], 2: G['z'], 0xFFFC: G['x'], 0xFFFD: G['y'], 0xFFFE: G['z'], 0xFFFF: G['acute'], 0x100041: G['astral'], 0x10FFFD: G['pseudo'], 0x10FFFE: G['astral'], 0x10FFFF: G['lig']})      # + plane 16; the LAST format-12 group is a range of three code points
    if bad_gid_char: cm[bad_gid_char] = 999          # a character whose cmap entry names a glyph the font does not have: the slot keeps that id, with no metrics
    S = lambda *n: {G[k] for k in n}
    classes = [[G['x']], [G['y']], [G['z']], [G['x'], G['y']], [G['lig']],          # linear / output
               [G['a'], G['b']], [G['a'], G['b'], G['c'], G['d']]]                   # lookup / input
    nlinear = 5
    featcon = A('PUSH_FEAT', 0, 0, 'PUSH_BYTE', 1, 'EQUAL', 'POP_RET')
    p0 = dict(maxloop=3, rules=[
        Rule(0, [S('a'), S('b')], A('PUT_GLYPH', 0, 4, 'ASSOC', 2, 0, 1, 'NEXT', 'DELETE', 'NEXT', 'RET_ZERO'), name='a b > lig _'),
        Rule(0, [S('a', 'b')], A('PUT_SUBS', 0, 0, 5, 0, 3, 'NEXT', 'RET_ZERO'), featcon, name='[ab] > [xy] if tst1==1'),
        Rule(0, [S('c')], A('INSERT', 'PUT_GLYPH', 0, 2, 'NEXT', 'NEXT', 'RET_ZERO'), name='c > z c'),
        Rule(1, [S('d'), S('e')], A('PUT_GLYPH', 0, 1, 'NEXT', 'RET_ZERO'), name='e > y / d _'),
    ])
    p1 = dict(maxloop=2, pconstraint=(A('PUSH_FEAT', 0, 0, 'PUSH_BYTE', 0, 'EQUAL', 'POP_RET') if feat_pconstraint else A('PUSH_BYTE', 1, 'POP_RET')), rules=[      # pass constraint: always / only while feature tst1 == 0
        Rule(0, [S('x')], A('PUSH_BYTE', 5, 'IATTR_SET', SLAT['userDefn'], 0, 'NEXT', 'RET_ZERO'), name='x {user0=5}'),
        Rule(0, [S('f')], A('PUT_COPY', 0, 'PUSH_BYTE', 7, 'IATTR_SET', SLAT['userDefn'], 1, 'NEXT', 'RET_ZERO'),
             A('PUSH_GLYPH_ATTR', 0, GA['ga0'], 0, 'PUSH_BYTE', G['f'], 'EQUAL', 'POP_RET'), name='f {user1=7} if ga0==15'),
    ])
    bases = S('a', 'b', 'c', 'd', 'e', 'f', 'x', 'y', 'z', 'lig', 'astral')
    marks = S('acute', 'grave')
    p2 = dict(maxloop=2, rules=[
        Rule(0, [bases, marks], A('NEXT', 'PUSH_BYTE', 0xFF, 'ATTR_SET_SLOT', SLAT['attTo'], 'PUSH_SHORT', 1, 44, 'ATTR_SET', SLAT['attX'],
                                  'PUSH_SHORT', 2, 88, 'ATTR_SET', SLAT['attY'], 'NEXT', 'RET_ZERO'), name='base mark > attach'),
        Rule(0, [bases, marks, marks], A('NEXT', 'PUSH_BYTE', 0xFF, 'ATTR_SET_SLOT', SLAT['attTo'], 'PUSH_SHORT', 1, 44, 'ATTR_SET', SLAT['attX'], 'PUSH_SHORT', 2, 88, 'ATTR_SET', SLAT['attY'], 'NEXT',
                                         'PUSH_BYTE', 0xFE, 'ATTR_SET_SLOT', SLAT['attTo'], 'PUSH_SHORT', 1, 44, 'ATTR_SET', SLAT['attX'], 'PUSH_SHORT', 2, 88, 'ATTR_SET', SLAT['attY'], 'NEXT', 'RET_ZERO'),
             name='base mark mark > attach both'),
        Rule(0, [S('y')], A('PUSH_BYTE', 50, 'ATTR_SET', SLAT['shiftX'], 'PUSH_SHORT', 2, 188, 'ATTR_SET', SLAT['advX'], 'NEXT', 'RET_ZERO'), name='y {shift.x=50; adv=700}'),
        Rule(0, [S('d')], A('PUSH_BYTE', 40, 'ATTR_SET', SLAT['advY'], 'PUSH_BYTE', 0xEC, 'ATTR_SET', SLAT['shiftY'], 'NEXT', 'RET_ZERO'), name='d {adv.y=40; shift.y=-20}'),
        Rule(0, [S('c'), S('d')], A('PUSH_SHORT', 3, 9, 'ATTR_SET', SLAT['advX'], 'NEXT', 'NEXT', 'RET_ZERO'), name='c {adv.x=777} / _ d   (the advance of c depends on its context)'),
    ])
    if excl_glyph:          # every attached mark names glyph 'e' as its collision exclusion glyph: the collision pass consults a glyph that need not occur in the text
        p2b = dict(maxloop=2, rules=[Rule(0, [marks], A('PUSH_BYTE', G['e'], 'ATTR_SET', SLAT['colExclGlyph'], 'PUSH_BYTE', 20, 'ATTR_SET', SLAT['colExclOffx'], 'PUSH_BYTE', 0xF6, 'ATTR_SET', SLAT['colExclOffy'], 'NEXT', 'RET_ZERO'), name='mark {collision.exclude.glyph = e}')])          # its own positioning pass, after the attaching one
    if gmetric:          # rules that read the face-level glyph metrics ascent (10); the synthesised fonts have no OS/2 table
        p2['rules'] += [Rule(0, [S('z')], A('PUSH_GLYPH_METRIC', 10, 0, 0, 'ATTR_SET', SLAT['shiftY'], 'NEXT', 'RET_ZERO'), name='z {shift.y = ascent}')]      # (the loader refuses metric 11, descent)
    if just_attached:          # justification width set by RULES: on an attached glyph that keeps its advance, and on a base
        p2['rules'] += [Rule(0, [S('e'), S('b')], A('NEXT', 'PUSH_BYTE', 0xFF, 'ATTR_SET_SLOT', SLAT['attTo'], 'PUSH_SHORT', 1, 44, 'ATTR_SET', SLAT['attX'], 'PUSH_BYTE', 40, 'ATTR_SET', SLAT['jWidth'], 'NEXT', 'RET_ZERO'), name='e b > b attached to e {justify.width=40}'),
                        Rule(0, [S('e'), S('e')], A('PUSH_BYTE', 30, 'ATTR_SET', SLAT['jWidth'], 'NEXT', 'NEXT', 'RET_ZERO'), name='e {justify.width=30} / _ e')]
    passes = [p0, p1, p2] + ([p2b] if excl_glyph else [])
    flags = 1 if line_ends else 0          # bit 0: line-end contextuals (gr_seg_justify adds temporary line-end slots)
    if with_collision and glat_version >= 3:
        passes.append(dict(maxloop=1, flags=1, rules=[]))
        flags |= 0x20
    silf = dict(version=version, passes=passes, classes=classes, nlinear=nlinear, pseudos=([(0x2022 + k, G['pseudo']) for k in range(12)] if many_pseudos else [(0x2022, G['pseudo'])]),
                jlevels=([] if no_just else [(GA['jstretch'], GA['jshrink'], GA['jstep'], GA['jweight'])]), iSubst=0, iPos=2, iJust=len(passes), flags=flags,
                aPseudo=GA['pseudo'], aBreak=GA['brk'], aBidi=GA['bidi'], aMirror=GA['mirror'], aPassBits=GA['passbits'] if pass_bits else 0, numUser=2, dir=1 if rtl else 0,
                aCollision=GA['coll'] if (with_collision and glat_version >= 3) else 0, critFeatures=[0], scriptTags=[tag('latn')], maxPre=1, maxPost=2)
    if lb_gid: silf['lbGID'] = lb_gid          # glyph of the temporary line-end slots (never validated by the loader)
    if bidi_pass: silf['iBidi'] = len(passes)          # the loader wants iBidi >= iJust: the bidi / mirroring step comes after the last pass
    extra12 = {0x61: G['b'], 0x62: G['c'], 0x63: G['a'], 0x20: G['x']} if cmap12_conflict else None      # BMP entries of the format-12 subtable that DISAGREE with format 4 (format 4 rules the BMP)
    return dict(glyphs=glyphs, cmap=cm, cmap12=True, cmap12_extra=extra12, num_attrs=34, glat_version=glat_version, gloc_long=True, glyf=glyf, extra_attr_glyphs=extra_attr_glyphs, silf=silf,
                names={256: 'Feature One', 257: 'Off', 258: 'On', 259: 'Second', 260: 'Zero', 261: 'Two', 262: 'Héllo \U00010400'},
                names_extra={(256, 0x40C): 'Trait Un'},
                feats=[(tag('tst1'), 256, 0, [(0, 257), (1, 258)]), (tag('tst2'), 259, 0, [(0, 260), (2, 261)]), (tag('hid'), 262, 0x0800, [(0, 260), (1, 258)]), (tag('any'), 262, 0, [])],
                langs=[(tag('en'), [(tag('tst1'), 1)]), (tag('fr'), [(tag('tst2'), 2), (tag('tst1'), 1)]), (tag('xyz'), [])], compress=compress)


def feat_family():
    """Feat/Sill fonts whose bit widths hit every residue around a 32-bit word boundary (C18)."""
    out = {}
    def mk(widths_or_max, nm, version=2, langs=True):
        base = s_min()
        feats = []; names = {}
        for i, mx in enumerate(widths_or_max):
            fid = tag('f%03d' % i) if version >= 2 else 0x100 + i
            nid = 300 + 2 * (i % 40)
            names[nid] = 'Feat%d' % i; names[nid + 1] = 'Set%d' % i
            if mx is None: settings = []                                   # zero settings: any 16-bit value, 32 bits
            elif mx == 0: settings = [(0, nid + 1)]                        # single setting 0: 0 bits
            else: settings = [(0, nid + 1), (mx, nid + 1)] if i % 2 == 0 else [(mx, nid + 1), (1 if mx > 1 else 0, nid + 1), (0, nid + 1)]
            feats.append((fid, nid, 0x0800 if i % 7 == 5 else 0, settings))
        base['feats'] = feats; base['names'] = names; base['feat_version'] = version
        if langs and len(feats) >= 2:
            f0, f1 = feats[0], feats[-1]
            def legal(f): return (f[3][0][0] if f[3] else 9)
            base['langs'] = [(tag('en'), [(f0[0], legal(f0))]), (tag('a'), [(f1[0], legal(f1)), (f0[0], legal(f0))]), (tag('mul3'), [(f[0], legal(f)) for f in feats[:6]]), (tag('xyz'), [])]
        else:
            base['langs'] = []
        out[nm] = base
    M = lambda bits: (1 << bits) - 1
    mk([M(1), M(31), M(1)], 'feat_1_31_1')
    mk([M(16), M(16), M(1)], 'feat_16_16_1')
    mk([M(17), M(16)], 'feat_17_16')
    mk([M(15), M(15), M(3)], 'feat_15_15_2')
    mk([M(16), 0, M(16), M(2)], 'feat_16_0_16_2')
    mk([None, M(1)], 'feat_any_1')
    mk([M(3), None, M(3), None], 'feat_3_any_3_any')
    mk([M(k % 16 + 1) for k in range(40)], 'feat_40_mixed')
    mk([M(1)] * 33, 'feat_33x1')
    mk([M(8)] * 9, 'feat_9x8')
    mk([M(16), M(5), M(11), M(1), M(16)], 'feat_v1_mixed', version=1)
    mk([None] * 5 + [M(2)], 'feat_5any_2')
    # word-index width (DESIGN 7.6): >= 129 zero-settings features alias through the 8-bit word index
    mk([None] * 129, 'feat_129any', langs=False)
    mk([None] * 130 + [M(3)], 'feat_130any_3', langs=False)
    # short ids: 1-, 2-, 3- and 4-character feature ids and language tags (tag padding, C20)
    base = s_min(); names = {300: 'F', 301: 'S'}
    base['feats'] = [(tag(t), 300, 0, [(0, 301), (3, 301)]) for t in ('q', 'rs', 'tuv', 'wxyz')]
    base['names'] = names
    base['langs'] = [(tag('a'), [(tag('q'), 3)]), (tag('bc'), [(tag('rs'), 3)]), (tag('def'), [(tag('tuv'), 3)]), (tag('ghij'), [(tag('wxyz'), 3)])]
    out['feat_shortids'] = base
    # ids and language tags with a space that is NOT trailing padding (blank in the middle, leading blank) and numeric ids with 0x20 in a higher byte
    base = s_min(); ids = [tag('a b'), tag('a bc'), tag('ab c'), tag(' abc'), 0x00002005, 0x00200001, 0x20000001, tag('abc')]
    base['feats'] = [(fid, 300, 0, [(0, 301), (2, 301), (5, 301)]) for fid in ids]
    base['names'] = {300: 'F', 301: 'S'}
    base['langs'] = [(tag('x y'), [(ids[0], 2)]), (tag(' xyz'), [(ids[1], 5)]), (tag('p qr'), [(ids[4], 2), (ids[5], 5)]), (tag('pq'), [(ids[7], 5)])]
    out['feat_spaceids'] = base
    # language entries that name feature ids the Feat table does not have (first, middle and last position): the other settings of the entry must still apply
    base = s_min(); ids = [tag('aaaa'), tag('bbbb'), tag('cccc'), tag('dddd')]; unk = [tag('zz99'), 0x00000009, 0xFFFFFFFF]
    base['feats'] = [(fid, 300, 0, [(0, 301), (2, 301), (5, 301)]) for fid in ids]
    base['names'] = {300: 'F', 301: 'S'}
    base['langs'] = [(tag('ufst'), [(unk[0], 2), (ids[0], 2), (ids[1], 5)]), (tag('umid'), [(ids[0], 5), (unk[1], 2), (ids[2], 2)]), (tag('ulst'), [(ids[1], 2), (ids[3], 5), (unk[2], 5)]),
                     (tag('uall'), [(unk[0], 2), (unk[1], 5)]), (tag('utwo'), [(unk[0], 2), (unk[2], 2), (ids[3], 2), (ids[0], 5)])]
    out['feat_unknownlang'] = base
    # language defaults with values at and above 0x8000 (the Sill value field is an unsigned 16-bit number here), different from the feature's own default
    base = s_min(); ids = [tag('hva'), tag('hvb'), tag('hvc')]
    base['feats'] = [(ids[0], 300, 0, [(0, 301), (0x7FFF, 301), (0x8000, 301), (0xFFFF, 301)]), (ids[1], 300, 0, [(5, 301), (0x9000, 301)]), (ids[2], 300, 0, [(0, 301), (0x8001, 301)])]
    base['names'] = {300: 'F', 301: 'S'}
    base['langs'] = [(tag('lo'), [(ids[0], 0x7FFF)]), (tag('mid'), [(ids[0], 0x8000), (ids[1], 0x9000)]), (tag('hi'), [(ids[0], 0xFFFF), (ids[2], 0x8001)]), (tag('btw'), [(ids[0], 0x8500), (ids[1], 0x8FFF)])]
    out['feat_highvals'] = base
    # ids spread over the whole unsigned 32-bit range (ordering / search by id must be unsigned), referenced by language defaults;
    # several low/high mixes so that any search shape meets a pair of ids that are >= 2^31 apart
    lows = [0x00000002, 0x00000003, 0x00000004, 0x00000005, 0x41424344, 0x7FFFFFFF]; highs = [0x80000000, 0x90000000, 0xA0000001, 0xF7747269, 0xFFFFFFF0, 0xFFFFFFFE]
    for nm, nl, nh in (('feat_highids', 3, 4), ('feat_highids_4_3', 4, 3), ('feat_highids_1_6', 1, 6), ('feat_highids_6_1', 6, 1)):
        base = s_min(); ids = lows[:nl] + highs[:nh]
        base['feats'] = [(fid, 300, 0, [(0, 301), (2, 301), (5, 301)]) for fid in ids]
        base['names'] = {300: 'F', 301: 'S'}
        base['langs'] = [(tag('lo'), [(ids[0], 2)]), (tag('hi'), [(ids[-1], 5), (ids[-2 if len(ids) > 1 else 0], 2)]), (tag('mix'), [(fid, 5) for fid in ids])]
        out[nm] = base
    return out


def write_all(outdir):
    fonts = {'s_min': s_min(), 's_full': s_full(), 's_full_z': s_full(compress=('Silf', 'Glat')), 's_full_v3': s_full(version=3, glat_version=1, with_collision=False),
             's_full_v4': s_full(version=4, glat_version=2, with_collision=False), 's_full_rtl': s_full(rtl=True), 's_full_nosub': s_full(subboxes=False),
             's_full_zs': s_full(compress=('Silf',)), 's_full_zg': s_full(compress=('Glat',)),
             's_full_noglyf': s_full(glyf=False), 's_full_extra': s_full(extra_attr_glyphs=3), 's_full_dense': s_full(dense_attrs=True), 's_full_le': s_full(line_ends=True), 's_full_le_badlb': s_full(line_ends=True, lb_gid=999), 's_full_cmapedge': s_full(cmap_edges=True), 's_full_pb': s_full(pass_bits=True, feat_pconstraint=True), 's_full_step': s_full(just_step=3), 's_full_pseudos': s_full(many_pseudos=True), 's_full_nojust': s_full(no_just=True), 's_full_jatt': s_full(just_attached=True), 's_full_excl': s_full(excl_glyph=True), 's_full_gmet': s_full(gmetric=True), 's_full_c12bmp': s_full(cmap12_conflict=True), 's_full_badgid': s_full(no_just=True, bad_gid_char=0x64), 's_full_rtl_jatt': s_full(rtl=True, just_attached=True), 's_twoclass': s_twoclass(), 's_full_unsorted': s_full(), 's_full_bidi': s_full(bidi_pass=True), 's_full_rtl_bidi': s_full(rtl=True, bidi_pass=True), 's_full_badglyph': s_full(bad_glyph='e'), 's_full_badlast': s_full(bad_glyph='f'), 's_full_rtl_le': s_full(rtl=True, line_ends=True)}
    fonts.update(feat_family())
    index = {}
    for name, spec in fonts.items():
        fm = FieldMap()
        tables = build_tables(spec, fm)
        open(os.path.join(outdir, name + '.ttf'), 'wb').write(sfnt(tables, 'reversed' if name.endswith('_unsorted') else 'sorted'))
        json.dump([list(x) for x in fm], open(os.path.join(outdir, name + '.fields.json'), 'w'))
        index[name] = dict(glyphs=len(spec['glyphs']), feats=len(spec.get('feats') or []))
    json.dump(index, open(os.path.join(outdir, 'index.json'), 'w'), indent=1)
