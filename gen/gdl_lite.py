#!/usr/bin/env python3
"""C06: GDL-lite rule programs, their reference semantics (written from doc/GTF.adoc "Pass contents" and the per-opcode
descriptions in doc/OpCodes.adoc, not from Pass.cpp), their compilation to Silf/Glat/Gloc/cmap tables through the synthesiser,
and the record stream for src/checks/c06_stream.cpp.  Every record carries the reference result of every test string
(table 'XPCT'); the harness shapes with the real engine and compares.

  gdl_lite.py <tier> <shard> <nshards>
"""
import os, sys, os, struct, json, itertools
sys.path.insert(0, os.path.dirname(os.path.abspath(__file__)))
from fontgen import *
from seeds import tag

# ---- repertoire ----
NAMES = ['notdef', 'space', 'a', 'b', 'c', 'd', 'x', 'y', 'z', 'm', 'e']
G = {n: i for i, n in enumerate(NAMES)}
ADV = [500, 300] + [400 + 50 * i for i in range(2, 9)] + [0, 850]
GA0, GA1 = 5, 6                         # glyph attributes usable in constraints: ga0 = gid, ga1 = gid % 3
CMAP = {0x20: 1, 0x61: 2, 0x62: 3, 0x63: 4, 0x64: 5, 0x78: 6, 0x79: 7, 0x7A: 8, 0x6D: 9}     # 'e' (U+0065) is deliberately unmapped -> .notdef; x y z m are used by the class-lookup family only
# classes: index -> ordered member list.  0..6 are used as OUTPUT classes (linear), 7.. as INPUT classes
CLASSES = [[G['x']], [G['y']], [G['z']], [G['x'], G['y']], [G['m']], [G['c']], [G['d']],
           [G['a']], [G['b']], [G['a'], G['b']], [G['b'], G['c']], [G['a'], G['b'], G['c'], G['d']], [G['x'], G['y'], G['z'], G['m'], G['a'], G['b'], G['c'], G['d']],
           [G['x']], [G['y']], [G['z']], [G['m']]]
NLINEAR = 7
OX, OY, OZ, OXY, OM, OC, OD, IA, IB, IAB, IBC, IABCD, IANY, IX, IY, IZ, IM = range(17)
# class-lookup family: lookup (input) classes of 1..8 members in two member orders, each with a same-sized output class (appended after the classes above;
# the output classes of this family are lookup classes as well: PUT_SUBS reads the output glyph by index from either kind)
_ORDER = [[G[n] for n in 'abcdxyzm'], [G[n] for n in 'mzyxdcba']]
SUBCLS = {}
for _n in range(1, 9):
    for _lay in (0, 1):
        SUBCLS[(_n, _lay)] = (len(CLASSES), len(CLASSES) + 1)
        CLASSES.append(_ORDER[_lay][:_n]); CLASSES.append([_ORDER[1 - _lay][(k * 3 + 1) % 8] for k in range(_n)])


class LRule:
    """pre: list of class ids (pre-context); body: list of (class id, [actions]); constraint: None | (item index relative to the first body item, kind, k, v)
    actions (applied to one body item, in this order): ('insert', outclass) ('glyph', outclass) ('subs', inclass, outclass) ('delete',) ('adv', v) ('shift', v) ('user', v) ('attach', x, y)"""
    def __init__(self, pre, body, constraint=None, name='', ret=0):
        self.pre = pre; self.body = body; self.constraint = constraint; self.name = name; self.ret = ret      # ret: cursor position relative to the slot after the rule (0 or -1)
    def length(self): return len(self.pre) + len(self.body)
    def classes(self): return list(self.pre) + [c for c, _ in self.body]


# ---- reference semantics -------------------------------------------------------------------------------------------
class S:
    __slots__ = ('gid', 'adv', 'shift', 'user', 'user1', 'parent', 'attx', 'atty')
    def __init__(self, gid): self.gid = gid; self.adv = ADV[gid]; self.shift = 0; self.user = 0; self.user1 = 0; self.parent = None; self.attx = 0; self.atty = 0


def constraint_holds(rule, slots, i, feat):
    if rule.constraint is None: return True
    idx, kind, k, v = rule.constraint
    s = slots[i + idx]
    if kind == 'gattr': return (s.gid if k == GA0 else s.gid % 3) == v
    if kind == 'user': return s.user == v
    if kind == 'user1': return s.user1 == v
    if kind == 'feat': return feat == v
    if kind == 'sadv': return s.adv == v          # slot attribute advance.x of the named item (may be a pre-context or a later item)
    if kind == 'sshift': return s.shift == v
    raise ValueError(kind)


def run_pass(rules, slots, feat):
    """One pass over the stream (already in the direction the pass wants)."""
    i = 0
    order = sorted(range(len(rules)), key=lambda r: (-rules[r].length(), r))          # longest sort key first, then earliest rule
    while i < len(slots):
        fired = False
        for r in order:
            rule = rules[r]; p = len(rule.pre); cl = rule.classes()
            if i - p < 0 or i - p + len(cl) > len(slots): continue
            if any(slots[i - p + k].gid not in CLASSES[cl[k]] for k in range(len(cl))): continue
            if not constraint_holds(rule, slots, i, feat): continue
            # fire: body items are processed left to right; the stream is modified in place
            pos = i
            snap = [(q.gid, q.adv, q.shift, q.user, q.user1) for q in slots[i - p:i - p + len(cl)]]      # slot references on the right-hand side name the INPUT slots
            for bj, (_, acts) in enumerate(rule.body):
                deleted = False
                for a in acts:
                    if a[0] == 'copy':          # the whole slot (glyph and attributes) is copied from the input slot k items away; never used on attached slots
                        t = slots[pos]; t.gid, t.adv, t.shift, t.user, t.user1 = snap[p + bj + a[1]]
                    elif a[0] == 'subsref':          # PUT_SUBS with a slot reference: the class index is taken from the INPUT glyph of the slot k items away
                        g = snap[p + bj + a[1]][0]; t = slots[pos]; t.gid = CLASSES[a[3]][CLASSES[a[2]].index(g)]; t.adv = ADV[t.gid]
                    elif a[0] == 'insert':
                        n = S(CLASSES[a[1]][0]); slots.insert(pos, n); pos += 1
                    elif a[0] == 'glyph': slots[pos].gid = CLASSES[a[1]][0]; slots[pos].adv = ADV[slots[pos].gid]
                    elif a[0] == 'subs':
                        inc = CLASSES[a[1]]; g = slots[pos].gid
                        slots[pos].gid = CLASSES[a[2]][inc.index(g)]; slots[pos].adv = ADV[slots[pos].gid]
                    elif a[0] == 'delete': deleted = True
                    elif a[0] == 'adv': slots[pos].adv = a[1]
                    elif a[0] == 'advadd': slots[pos].adv += a[1]
                    elif a[0] == 'shiftadd': slots[pos].shift += a[1]
                    elif a[0] == 'shiftsub': slots[pos].shift -= a[1]
                    elif a[0] == 'useradd': slots[pos].user += a[1]
                    elif a[0] == 'shift': slots[pos].shift = a[1]
                    elif a[0] == 'user': slots[pos].user = a[1]
                    elif a[0] == 'user1': slots[pos].user1 = a[1]
                    elif a[0] == 'attach':
                        slots[pos].parent = slots[pos - 1]; slots[pos].attx = a[1]; slots[pos].atty = a[2]
                    elif a[0] == 'attach2':         # attach to the slot two before (re-attaching moves the slot from its old parent to the new one)
                        slots[pos].parent = slots[pos - 2]; slots[pos].attx = a[1]; slots[pos].atty = a[2]
                if deleted: del slots[pos]
                else: pos += 1
            i = pos + rule.ret; fired = True
            break
        if not fired: i += 1
    return slots


def reference(prog, text_gids, rd, feat):
    """prog: dict(passes=[dict(rules=[...], reverse=0|1)], rtl=0|1). Returns the final slot list in output order and positions (or None)."""
    slots = [S(g) for g in text_gids]; cur = rd; fd = prog['rtl']
    for P in prog['passes']:
        want = fd ^ P.get('reverse', 0)
        if cur != want: slots.reverse(); cur = want
        run_pass(P['rules'], slots, feat)
    positions = None
    if fd == 0 and rd == 0 and not any(P.get('reverse', 0) for P in prog['passes']):
        pen = 0; positions = {}
        for s in slots:
            if s.parent is None:
                positions[id(s)] = (pen + s.shift, 0); pen += s.adv
        for s in slots:        # attached glyphs: parent origin + attach point + shift (marks have zero advance and non-negative offsets)
            if s.parent is not None:
                base = s.parent
                while base.parent is not None: base = base.parent
                px, py = positions[id(s.parent)] if id(s.parent) in positions else (0, 0)
                positions[id(s)] = (px + s.attx + s.shift, py + s.atty)
        positions['advance'] = pen
    if cur != rd: slots.reverse()
    return slots, positions


# ---- compilation ---------------------------------------------------------------------------------------------------
def compile_rule(rule):
    code = b''
    for (_, acts) in rule.body:
        deleted = False
        for a in acts:
            if a[0] == 'copy': code += A('PUT_COPY', a[1] & 0xFF)
            elif a[0] == 'insert': code += A('INSERT', 'PUT_GLYPH', 0, a[1], 'NEXT')
            elif a[0] == 'glyph': code += A('PUT_GLYPH', 0, a[1])
            elif a[0] == 'subs': code += A('PUT_SUBS', 0, 0, a[1], 0, a[2])
            elif a[0] == 'subsref': code += A('PUT_SUBS', a[1] & 0xFF, 0, a[2], 0, a[3])
            elif a[0] == 'delete': deleted = True
            elif a[0] == 'adv': code += push(a[1]) + A('ATTR_SET', SLAT['advX'])
            elif a[0] == 'advadd': code += push(a[1]) + A('ATTR_ADD', SLAT['advX'])
            elif a[0] == 'shiftadd': code += push(a[1]) + A('ATTR_ADD', SLAT['shiftX'])
            elif a[0] == 'shiftsub': code += push(a[1]) + A('ATTR_SUB', SLAT['shiftX'])
            elif a[0] == 'useradd': code += push(a[1]) + A('IATTR_ADD', SLAT['userDefn'], 0)
            elif a[0] == 'shift': code += push(a[1]) + A('ATTR_SET', SLAT['shiftX'])
            elif a[0] == 'user': code += push(a[1]) + A('IATTR_SET', SLAT['userDefn'], 0)
            elif a[0] == 'user1': code += push(a[1]) + A('IATTR_SET', SLAT['userDefn'], 1)
            elif a[0] == 'attach': code += push(-1) + A('ATTR_SET_SLOT', SLAT['attTo']) + push(a[1]) + A('ATTR_SET', SLAT['attX']) + push(a[2]) + A('ATTR_SET', SLAT['attY'])
            elif a[0] == 'attach2': code += push(-2) + A('ATTR_SET_SLOT', SLAT['attTo']) + push(a[1]) + A('ATTR_SET', SLAT['attX']) + push(a[2]) + A('ATTR_SET', SLAT['attY'])
        code += A('DELETE', 'NEXT') if deleted else A('NEXT')
    code += A('RET_ZERO') if rule.ret == 0 else push(rule.ret) + A('POP_RET')
    con = b''
    if rule.constraint is not None:
        idx, kind, k, v = rule.constraint
        if kind == 'gattr': body = A('PUSH_GLYPH_ATTR', 0, k, 0) + push(v) + A('EQUAL')
        elif kind == 'user': body = A('PUSH_ISLOT_ATTR', SLAT['userDefn'], 0, 0) + push(v) + A('EQUAL')
        elif kind == 'user1': body = A('PUSH_ISLOT_ATTR', SLAT['userDefn'], 0, 1) + push(v) + A('EQUAL')
        elif kind == 'sadv': body = A('PUSH_SLOT_ATTR', SLAT['advX'], 0) + push(v) + A('EQUAL')
        elif kind == 'sshift': body = A('PUSH_SLOT_ATTR', SLAT['shiftX'], 0) + push(v) + A('EQUAL')
        else: body = A('PUSH_FEAT', 0, 0) + push(v) + A('EQUAL')
        con = A('CNTXT_ITEM', idx, len(body)) + body + A('POP_RET')
    pattern = [set(CLASSES[c]) for c in rule.classes()]
    return Rule(len(rule.pre), pattern, code, con)


def compile_font(prog):
    glyphs = [dict(adv=ADV[i], attrs={GA0: i, GA1: i % 3}) for i in range(len(NAMES))]
    passes = []
    npos = None
    for pi, P in enumerate(prog['passes']):
        passes.append(dict(maxloop=P.get('maxloop', 20), flags=0x20 if P.get('reverse') else 0, rules=[compile_rule(r) for r in P['rules']]))
        if P.get('positioning') and npos is None: npos = pi
    if npos is None: npos = len(passes)
    silf = dict(version=3, passes=passes, classes=CLASSES, nlinear=NLINEAR, iSubst=0, iPos=npos, numUser=2, maxPre=2, maxPost=3, dir=prog['rtl'])
    return dict(glyphs=glyphs, cmap=CMAP, num_attrs=16, silf=silf, names={256: 'F'}, feats=[(tag('tst1'), 256, 0, [(0, 256), (1, 256)])], langs=[])


# ---- program space -------------------------------------------------------------------------------------------------
SUB_ACTS = [('glyph', OX), ('glyph', OZ), ('delete',), ('insert', OZ), ('user', 3), ('adv', 777), ('subs', IAB, OXY)]
POS_ACTS = [('shift', 30), ('adv', 640), ('user', 2)]
CONSTRAINTS = [None, ('gattr', GA1, 0), ('gattr', GA1, 2), ('feat', 0, 1)]


def legal(cls, act):
    if act[0] == 'subs': return set(CLASSES[cls]) <= set(CLASSES[act[1]])
    return True


def single_rules(tier):
    """Ordered cheapest first: by total rule length, unconstrained rules before constrained ones (a deadline cut loses the largest, most redundant part)."""
    thorough = tier == 'thorough'
    body_classes = [IA, IAB, IBC] if not thorough else [IA, IB, IAB, IBC, IABCD]
    shapes = sorted(((p, n) for p in (0, 1, 2) for n in (1, 2, 3) if p + n <= (5 if thorough else 4)), key=lambda pn: (pn[0] + pn[1], pn[0]))
    for constrained in (False, True):
        for p, n in shapes:
            for precls in ([()] if p == 0 else [tuple([IAB] * p), tuple([IABCD] * p)]):
                for cls in itertools.product(body_classes, repeat=n):
                    # up to 2 items carry one non-copy action each
                    for which in [()] + [(i,) for i in range(n)] + [(i, j) for i in range(n) for j in range(i + 1, n)]:
                        for acts in itertools.product(SUB_ACTS, repeat=len(which)):
                            if not all(legal(cls[w], a) for w, a in zip(which, acts)): continue
                            if len(which) == 0 and n > 1: continue
                            body = [(cls[i], [acts[which.index(i)]] if i in which else []) for i in range(n)]
                            for con in (CONSTRAINTS if (thorough or n == 1) else CONSTRAINTS[:2]):
                                if (con is not None) != constrained: continue
                                for ci in ([0] if con is None else range(-p, n) if thorough else [0]):
                                    c = None if con is None else (ci, con[0], con[1], con[2])
                                    yield LRule(list(precls), body, c)
                                    # resume one slot earlier (inside the rule's own output); still net forward progress for bodies >= 2
                                    if n >= 2 and len(which) <= 1 and con is None and not any(a[0] == 'delete' for a in acts): yield LRule(list(precls), body, c, ret=-1)


def core_rules():
    """64 rules that overlap on many strings: precedence by length, by rule order, by constraint."""
    R = []
    for cls, act in ((IA, ('glyph', OX)), (IAB, ('glyph', OY)), (IB, ('glyph', OZ)), (IBC, ('user', 3)), (IABCD, ('adv', 777)), (IAB, ('subs', IAB, OXY)), (IA, ('delete',)), (IB, ('insert', OZ))):
        R.append(LRule([], [(cls, [act])]))
        R.append(LRule([], [(cls, [act])], (0, 'gattr', GA1, 0)))
        R.append(LRule([IAB], [(cls, [act])]))
        R.append(LRule([], [(cls, [act]), (IABCD, [])]))
        R.append(LRule([], [(IAB, []), (cls, [act])]))
        R.append(LRule([IABCD], [(cls, [act]), (IAB, [('glyph', OZ)])]))
        R.append(LRule([], [(cls, [act]), (IBC, []), (IAB, [('glyph', OX)])]))
        R.append(LRule([], [(cls, [act])], (0, 'feat', 0, 1)))
    return R


def pos_rules():
    anyg = IANY
    R = [LRule([], [(anyg, []), (anyg, [('attach', 120, 300)])]), LRule([], [(anyg, [('shift', 30)])]), LRule([anyg], [(anyg, [('adv', 640)])]),
         LRule([], [(anyg, [('user', 2)]), (anyg, [('shift', 45)])]), LRule([], [(anyg, []), (anyg, [('attach', 0, 250)]), (anyg, [('shift', 10)])])]
    # attachments only of the zero-advance mark glyph (inserted by a substitution rule) keep the cluster rules out of the subset
    R2 = [LRule([], [(anyg, []), (OM, [('attach', 120, 300)])]), LRule([], [(anyg, []), (OM, [('attach', 60, 200)]), (OM, [('attach', 0, 150)])])]
    return R[1:4] + R2


def programs(tier):
    # the small hand-shaped families first, the bulk enumeration of single rules last
    for prog in family_programs(tier): yield prog
    for r in single_rules(tier):
        yield dict(kind='single', passes=[dict(rules=[r])], rtl=0)


def family_programs(tier):
    thorough = tier == 'thorough'
    core = core_rules()
    for i, a in enumerate(core):
        for j, b in enumerate(core):
            if not thorough and (i % 2 or j % 2): continue
            yield dict(kind='pair', passes=[dict(rules=[a, b])], rtl=0, ids=(i, j))
    # two passes: a substitution rule, then a positioning rule that sees its output; the substitution may insert the mark
    subs = core[::4] + [LRule([], [(IAB, [('insert', OM)])]), LRule([], [(IA, []), (IB, [('glyph', OM)])])]
    for i, a in enumerate(subs):
        for j, b in enumerate(pos_rules()):
            yield dict(kind='twopass', passes=[dict(rules=[a]), dict(rules=[b], positioning=True)], rtl=0, ids=(i, j))
    # a first pass that sets a user attribute, then a pass with two rules (delete / insert / substitute ...): inserted slots must be fresh
    firsts = [LRule([], [(IAB, [('user', 3)])]), LRule([], [(IA, [('user', 3)]), (IABCD, [])]), LRule([], [(IABCD, [('adv', 777)])])]
    seconds = core[::4]
    for i, a in enumerate(firsts):
        for j, b in enumerate(seconds):
            for k, c in enumerate(seconds):
                if not thorough and (j + k) % 2: continue
                yield dict(kind='attr_then_pair', passes=[dict(rules=[a]), dict(rules=[b, c])], rtl=0, ids=(i, j, k))
    # cursor backup: k single-slot rules that substitute and resume AT THEIR OWN SLOT (no progress), k <= MaxRuleLoop-1 so that the loop
    # limit never intervenes, then a rule spanning 2-3 slots, then a rule that could match inside that rule's output
    chain_in = [IA, IX, IY, IZ, IM]; chain_out = [OX, OY, OZ, OM]
    for M in (2, 3, 4, 5):
        for k in range(1, M):
            chain = [LRule([], [(chain_in[q], [('glyph', chain_out[q])])], ret=-1) for q in range(k)]
            end = chain_in[k]
            for pi, P in enumerate((LRule([], [(end, [('glyph', OD)]), (IB, [('glyph', OC)])]), LRule([], [(end, [('glyph', OD)]), (IB, [('glyph', OC)])], ret=-1), LRule([], [(end, [('glyph', OD)]), (IB, [('glyph', OC)]), (IABCD, [])]))):
                for ti, T in enumerate((LRule([], [(IBC, [('glyph', OZ)])]), LRule([], [(IABCD, [('glyph', OX)])]))):
                    yield dict(kind='backup_chain', passes=[dict(rules=chain + [P, T], maxloop=M)], rtl=0, ids=(M, k, pi, ti))
    # attribute arithmetic and attribute read-back: ATTR_ADD / ATTR_SUB / IATTR_ADD on one item of a rule; constraints that read advance / shift of the
    # item itself, of the pre-context item and of the following item; a first pass that changes the attribute the second pass's constraint reads
    ARITH = [('advadd', 30), ('shiftadd', 20), ('shiftsub', 15), ('useradd', 2), ('adv', 0)]
    for act in ARITH:
        for cls in (IA, IAB):
            yield dict(kind='attr_ops', passes=[dict(rules=[LRule([], [(cls, [act])])])], rtl=0)
            yield dict(kind='attr_ops', passes=[dict(rules=[LRule([], [(cls, [act]), (IABCD, [])])])], rtl=0)
            yield dict(kind='attr_ops', passes=[dict(rules=[LRule([IAB], [(IABCD, []), (cls, [act])])])], rtl=0)
            yield dict(kind='attr_ops', passes=[dict(rules=[LRule([], [(cls, [act, ('shiftadd', 5)])]), LRule([], [(IABCD, [('shiftadd', 1)])])])], rtl=0)
    for idx in (-1, 0, 1):
        for kind, v in (('sadv', ADV[G['a']]), ('sadv', ADV[G['b']]), ('sadv', 777), ('sshift', 0), ('sshift', 20)):
            pre = [IABCD] if idx < 0 else []
            r2 = LRule(pre, [(IABCD, [('glyph', OX)]), (IABCD, [])], (idx, kind, 0, v))
            yield dict(kind='attr_read', passes=[dict(rules=[r2])], rtl=0)
            yield dict(kind='attr_read', passes=[dict(rules=[LRule([], [(IA, [('adv', 777), ('shiftadd', 20)])])]), dict(rules=[r2])], rtl=0)
    # slot recycling: a user attribute (index 0 / 1) set on a slot that a later pass deletes; a still later INSERT must produce a fresh slot, which a
    # third pass tests through a constraint on the inserted glyph
    for ua, uk in (('user', 'user'), ('user1', 'user1')):
        for v in (7, 300):
            for delcls in (IA, IAB):
                mark = LRule([], [(IAB, [(ua, v)])]); dele = LRule([], [(delcls, [('delete',)])]); ins = LRule([], [(IBC, [('insert', OX)])])
                test = LRule([], [(IX, [('glyph', OY)])], (0, uk, 0, v))
                yield dict(kind='stale_user', passes=[dict(rules=[mark]), dict(rules=[dele, ins]), dict(rules=[test])], rtl=0)
                yield dict(kind='stale_user', passes=[dict(rules=[mark]), dict(rules=[dele]), dict(rules=[ins]), dict(rules=[test])], rtl=0)
    # slot copies: PUT_COPY from the following / preceding input slot (a swap reads both INPUT slots), optionally followed by an attribute assignment;
    # a first pass gives 'a' distinctive attributes (values beyond one byte, negative), a last pass tests the second user attribute of the result
    marks = [LRule([], [(IA, [('user', 300), ('user1', -2), ('adv', 777)])]), LRule([], [(IAB, [('user1', 7)]), (IABCD, [('shift', 25)])]), None]
    copies = [LRule([], [(IAB, [('copy', 1)]), (IAB, [('copy', -1)])]), LRule([], [(IAB, [('copy', 1)]), (IABCD, [])]), LRule([IAB], [(IABCD, [('copy', -1)])]),
              LRule([], [(IABCD, []), (IAB, [('copy', -1)])]), LRule([], [(IAB, [('copy', 1), ('user1', 9)]), (IAB, [('copy', -1), ('adv', 300)])]),
              LRule([], [(IAB, [('copy', 2)]), (IABCD, []), (IAB, [('copy', -2)])]), LRule([], [(IAB, [('copy', 1)]), (IAB, [('copy', 1)]), (IABCD, [('copy', -2)])]),
              LRule([], [(IAB, [('copy', 2)]), (IAB, [('copy', -1)]), (IABCD, [('copy', -1)])]), LRule([], [(IABCD, []), (IAB, [('copy', -1)]), (IABCD, [('copy', -1)])]),      # chains of BACKWARD copies: an item rewritten by a backward copy is referenced by the next item
              LRule([IAB], [(IAB, [('copy', -1)]), (IABCD, [('copy', -1)])])]
    tests = [LRule([], [(IABCD, [('glyph', OZ)])], (0, 'user1', 0, -2)), LRule([], [(IABCD, [('glyph', OZ)])], (0, 'user1', 0, 7)), LRule([], [(IABCD, [('glyph', OZ)])], (0, 'user', 0, 300))]
    for mi, mark in enumerate(marks):
        for ci, cp in enumerate(copies):
            for ti, test in enumerate(tests):
                ps = ([dict(rules=[mark])] if mark is not None else []) + [dict(rules=[cp])] + ([dict(rules=[test])] if mark is not None else [])
                if mark is None and ti: continue
                yield dict(kind='copy', passes=ps, rtl=0, ids=(mi, ci, ti))
    # a base that already carries an attached mark is CHANGED by a later rule whose next item REFERENCES it (the loader plants a temporary copy of the base for the
    # duration of the rule): the mark must stay attached, at the same offsets
    att1 = LRule([], [(IABCD, []), (IM, [('attach', 120, 300)])]); att2 = LRule([], [(IABCD, []), (IM, [('attach', 120, 300)]), (IM, [('attach2', 60, 200)])])
    chg = [LRule([], [(IA, [('glyph', OX)]), (IM, [('subsref', -1, IA, OM)])]), LRule([], [(IA, [('glyph', OX)]), (IM, []), (IM, [('subsref', -2, IA, OM)])]),
           LRule([], [(IA, [('glyph', OX), ('shift', 15)]), (IM, [('subsref', -1, IA, OM), ('user', 4)])])]
    t_att = [[0x61, 0x6D], [0x62, 0x61, 0x6D], [0x61, 0x6D, 0x6D], [0x61, 0x61, 0x6D], [0x62, 0x6D, 0x6D, 0x61]]
    for ai, a1 in enumerate((att1, att2)):
        for ci, c1 in enumerate(chg):
            yield dict(kind='changed_ref_attached', passes=[dict(rules=[a1], positioning=True), dict(rules=[c1], positioning=True)], rtl=0, ids=(ai, ci), texts=t_att)
    # re-attachment: two marks are attached to a base by one positioning pass, a second positioning pass moves the first mark to the slot before the base;
    # the base must keep (and position) its other mark
    mm = [[0x61, 0x62, 0x6D, 0x6D], [0x62, 0x6D, 0x6D], [0x61, 0x61, 0x62, 0x6D, 0x6D], [0x61, 0x62, 0x6D], [0x61, 0x62, 0x6D, 0x6D, 0x63]]
    A1 = LRule([], [(IABCD, []), (IM, [('attach', 120, 300)]), (IM, [('attach2', 60, 200)])])
    A2 = LRule([], [(IABCD, []), (IM, [('attach', 120, 300)])])
    for first in (A1, A2):
        for B in (LRule([], [(IABCD, []), (IABCD, []), (IM, [('attach2', 30, 100)])]), LRule([], [(IABCD, []), (IABCD, []), (IM, []), (IM, [('attach', 10, 40)])])):
            yield dict(kind='reattach', passes=[dict(rules=[first], positioning=True), dict(rules=[B], positioning=True)], rtl=0, texts=mm)
            yield dict(kind='reattach', passes=[dict(rules=[first, B], positioning=True)], rtl=0, texts=mm)
    # class lookup: PUT_SUBS through lookup classes of every size 1..8 in two member orders; every member is substituted (alone and in a run)
    for (n, lay), (cin, cout) in sorted(SUBCLS.items()):
        mem = CLASSES[cin]; inv = {g: c for c, g in CMAP.items()}
        tx = [[inv[g]] for g in mem] + [[inv[g] for g in mem], [inv[g] for g in reversed(mem)], [0x61, inv[mem[-1]], 0x62]]
        yield dict(kind='class_lookup', passes=[dict(rules=[LRule([], [(cin, [('subs', cin, cout)])])])], rtl=0, ids=(n, lay), texts=tx)
        yield dict(kind='class_lookup', passes=[dict(rules=[LRule([IANY], [(cin, [('subs', cin, cout)])])])], rtl=0, ids=(n, lay, 1), texts=tx)
    # directions: RTL font, reverse-direction pass
    for i, a in enumerate(core[::2] if thorough else core[::8]):
        for rtl in (0, 1):
            for rev in (0, 1):
                if rtl == 0 and rev == 0: continue
                yield dict(kind='direction', passes=[dict(rules=[a], reverse=rev)], rtl=rtl, ids=(i,))
                yield dict(kind='direction2', passes=[dict(rules=[a]), dict(rules=[core[1]], reverse=rev)], rtl=rtl, ids=(i,))


def strings(tier):
    alpha = [0x61, 0x62, 0x63, 0x64]
    out = []
    for L in range(1, (5 if tier == 'thorough' else 4)):
        for t in itertools.product(alpha, repeat=L): out.append(list(t))
    out += [[0x61, 0x65, 0x62], [0x65], [0x62, 0x62, 0x65, 0x61]]
    return out


def describe_rule(r):
    return dict(pre=[c for c in r.pre], body=[[c, [list(a) for a in acts]] for c, acts in r.body], constraint=r.constraint, ret=r.ret)


def expectation_table(prog, texts):
    out = bytearray(); n = 0
    for t in texts:
        gids = [CMAP.get(c, 0) for c in t]
        for rd in (0, 1):
            for feat in ((0, 1) if any(r.constraint and r.constraint[1] == 'feat' for P in prog['passes'] for r in P['rules']) else (0,)):
                slots, pos = reference(prog, gids, rd, feat)
                out += struct.pack('<BBB', rd, feat, len(t)) + b''.join(struct.pack('<I', c) for c in t)
                out += struct.pack('<BB', len(slots), 1 if pos is not None else 0)
                index = {id(s): k for k, s in enumerate(slots)}
                for s in slots:
                    par = -1 if s.parent is None else index.get(id(s.parent), -2)
                    px, py = pos[id(s)] if pos is not None else (0, 0)
                    out += struct.pack('<HbhhhhhiI', s.gid, par, s.adv, s.shift, s.user, s.attx, s.atty, int(px), int(py) & 0xFFFFFFFF)
                out += struct.pack('<i', int(pos['advance']) if pos is not None else 0)
                n += 1
    return struct.pack('<I', n) + bytes(out)


def main():
    tier, shard, nshards = sys.argv[1], int(sys.argv[2]), int(sys.argv[3])
    out = sys.stdout.buffer; texts = strings(tier)
    only = os.environ.get('GDL_KINDS')           # debugging aid: restrict to some kinds (indices stay those of the full enumeration)
    for idx, prog in enumerate(programs(tier)):
        if idx % nshards != shard: continue
        if only and prog['kind'] not in only.split(','): continue
        try:
            tables = build_tables(compile_font(prog))
        except AssertionError:
            continue
        tables[b'XPCT'] = expectation_table(prog, prog.get('texts', texts))
        meta = json.dumps(dict(family='gdl_lite', kind=prog['kind'], rtl=prog['rtl'], passes=[dict(reverse=P.get('reverse', 0), maxloop=P.get('maxloop', 20), positioning=bool(P.get('positioning')), rules=[describe_rule(r) for r in P['rules']]) for P in prog['passes']])).encode()
        out.write(struct.pack('<Q', idx)); write_stream(out, tables, meta)


if __name__ == '__main__':
    try: main()
    except BrokenPipeError: pass
