#!/usr/bin/env python3
"""Enumerating LZ4 encoder (C14 transparency): every valid encoding of a table that differs from the greedy parse in
<= k decisions, wrapped into the compressed table layout of an S-full font and written as a record stream.

  lz4enum.py <tier> <shard> <nshards>
"""
import sys, os, struct, json, itertools
sys.path.insert(0, os.path.dirname(os.path.abspath(__file__)))
from fontgen import *
import seeds


def candidates(data, i, table):
    """match candidates (offset, length) at position i, nearest first"""
    key = bytes(data[i:i + 4]); out = []
    for j in reversed(table.get(key, [])):
        if i - j > 0xFFFF: break
        m = 4; n = len(data)
        while i + m < n - 5 and data[j + m] == data[i + m]: m += 1
        out.append((i - j, m))
    return out


def encode(data, policy):
    """policy: dict decision_index -> alternative; decision points are positions where the greedy parse finds a match.
    alternatives: 0 greedy (nearest, longest), 1 literal instead, 2 shortest match (4), 3 farthest offset, 4 match cut to 19 (forces a 15+ length extension byte),
    Returns (bytes, number of decision points)."""
    n = len(data); out = bytearray(); i = 0; anchor = 0; table = {}; dec = 0
    def emit(lit, mlen, off):
        ll = len(lit); out.append((min(ll, 15) << 4) | (0 if mlen is None else min(mlen - 4, 15)))
        if ll >= 15:
            r = ll - 15
            while r >= 255: out.append(255); r -= 255
            out.append(r)
        out.extend(lit)
        if mlen is not None:
            out.extend(struct.pack('<H', off))
            if mlen - 4 >= 15:
                r = mlen - 4 - 15
                while r >= 255: out.append(255); r -= 255
                out.append(r)
    def index(upto, frm):
        for k in range(frm, upto):
            if k + 4 <= n: table.setdefault(bytes(data[k:k + 4]), []).append(k)
    indexed = 0
    while i + 12 < n:
        index(i, indexed); indexed = max(indexed, i)
        c = candidates(data, i, table)
        if c:
            alt = policy.get(dec, 0); dec += 1
            if alt == 1: i += 1; continue
            off, m = c[0]
            if alt == 3: off, m = c[-1]
            if alt == 2: m = 4
            if alt == 4: m = min(m, 19)
            emit(data[anchor:i], m, off); i += m; anchor = i; continue
        i += 1
    emit(data[anchor:], None, 0)
    return bytes(out), dec


def greedy_sequences(data):
    """[(literal_length, match_length, offset)] of the greedy parse; the final literal run is not included"""
    n = len(data); i = 0; anchor = 0; table = {}; seqs = []; indexed = 0
    while i + 12 < n:
        for k in range(indexed, i):
            if k + 4 <= n: table.setdefault(bytes(data[k:k + 4]), []).append(k)
        indexed = max(indexed, i)
        c = candidates(data, i, table)
        if c:
            off, m = c[0]; seqs.append([i - anchor, m, off]); i += m; anchor = i; continue
        i += 1
    return seqs


def emit_sequences(data, seqs):
    out = bytearray(); pos = 0
    def tok(ll, mlen):
        out.append((min(ll, 15) << 4) | (0 if mlen is None else min(mlen - 4, 15)))
        if ll >= 15:
            r = ll - 15
            while r >= 255: out.append(255); r -= 255
            out.append(r)
    for ll, m, off in seqs:
        tok(ll, m); out.extend(data[pos:pos + ll]); pos += ll; out.extend(struct.pack('<H', off))
        if m - 4 >= 15:
            r = m - 4 - 15
            while r >= 255: out.append(255); r -= 255
            out.append(r)
        pos += m
    tok(len(data) - pos, None); out.extend(data[pos:])
    return bytes(out)


def barely_shrinking(data):
    """valid blocks that are exactly k = 1..12 bytes shorter than the data: the LAST match of the greedy parse is shortened byte by byte (the cut bytes join the
    final literal run) and dropped when it is down to 4, again and again, until the block is no longer shorter than the data"""
    n = len(data); res = {}
    seqs = [list(q) for q in greedy_sequences(data)]
    cur = emit_sequences(data, seqs)
    while len(cur) < n:
        k = n - len(cur)
        if 1 <= k <= 12 and k not in res: res[k] = cur
        if not seqs: break
        if seqs[-1][1] > 4: seqs[-1][1] -= 1
        else: seqs.pop()
        cur = emit_sequences(data, seqs)
    return res


def variants(plain, tier):
    base, nd = encode(plain, {})
    yield {}, base
    alts = (1, 2, 3, 4)
    for d in range(nd):
        for a in alts:
            yield {d: a}, None
    # barely shrinking encodings: valid blocks exactly 1..12 bytes shorter than the data
    for k, enc in sorted(barely_shrinking(plain).items()):
        yield {'shorter_by': k}, enc
    if tier == 'thorough':
        for d1 in range(nd):
            for d2 in range(d1 + 1, min(nd, d1 + 9)):        # pairs of nearby decisions
                for a1 in alts:
                    for a2 in alts:
                        yield {d1: a1, d2: a2}, None


def main():
    tier, shard, nshards = sys.argv[1], int(sys.argv[2]), int(sys.argv[3])
    out = sys.stdout.buffer
    spec = seeds.s_full()
    tables = build_tables(spec)
    idx = 0
    for which in (('Silf',), ('Glat',), ('Silf', 'Glat')):
        gens = [list(variants(tables[w.encode()], tier)) for w in which]
        if len(which) == 2: combos = [(a, b) for a in gens[0][:40] for b in gens[1][:40]] if tier == 'thorough' else [(a, b) for a in gens[0][:12] for b in gens[1][:12]]
        else: combos = [(a,) for a in gens[0]]
        for combo in combos:
            if idx % nshards == shard:
                t = dict(tables); ok = True; pol = {}
                for w, (policy, pre) in zip(which, combo):
                    plain = tables[w.encode()]
                    enc = pre if pre is not None else encode(plain, policy)[0]
                    if len(enc) >= len(plain): ok = False; break         # the property covers every valid block that is shorter than the data (the 8-byte table header does not count)
                    t[w.encode()] = plain[:4] + struct.pack('>I', (1 << 27) | len(plain)) + enc; pol[w] = {str(k): v for k, v in policy.items()}
                if ok:
                    meta = json.dumps(dict(family='lz4_transparency', tables=list(which), policy=pol)).encode()
                    out.write(struct.pack('<Q', idx)); write_stream(out, t, meta)
            idx += 1


if __name__ == '__main__':
    try: main()
    except BrokenPipeError: pass
