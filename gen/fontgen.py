#!/usr/bin/env python3
"""E-gen: Graphite font synthesiser (stdlib only).

build_tables(spec) -> {tag(bytes): bytes}; sfnt(tables) -> bytes.
Layouts follow doc/GTF.adoc as refined by the loaders (see DESIGN.md section 9).
A spec is a plain dict; every field has a default so that tiny specs stay tiny.
"""
import struct

OP = dict(NOP=0, PUSH_BYTE=1, PUSH_BYTEU=2, PUSH_SHORT=3, PUSH_SHORTU=4, PUSH_LONG=5, ADD=6, SUB=7, MUL=8, DIV=9,
          MIN=10, MAX=11, NEG=12, TRUNC8=13, TRUNC16=14, COND=15, AND=16, OR=17, NOT=18, EQUAL=19, NOT_EQ=20,
          LESS=21, GTR=22, LESS_EQ=23, GTR_EQ=24, NEXT=25, NEXT_N=26, COPY_NEXT=27, PUT_GLYPH8=28, PUT_SUBS8=29,
          PUT_COPY=30, INSERT=31, DELETE=32, ASSOC=33, CNTXT_ITEM=34, ATTR_SET=35, ATTR_ADD=36, ATTR_SUB=37,
          ATTR_SET_SLOT=38, IATTR_SET_SLOT=39, PUSH_SLOT_ATTR=40, PUSH_GLYPH_ATTR_OBS=41, PUSH_GLYPH_METRIC=42,
          PUSH_FEAT=43, PUSH_ATT_TO_GATTR_OBS=44, PUSH_ATT_TO_GLYPH_METRIC=45, PUSH_ISLOT_ATTR=46,
          PUSH_IGLYPH_ATTR=47, POP_RET=48, RET_ZERO=49, RET_TRUE=50, IATTR_SET=51, IATTR_ADD=52, IATTR_SUB=53,
          PUSH_PROC_STATE=54, PUSH_VERSION=55, PUT_SUBS=56, PUT_SUBS2=57, PUT_SUBS3=58, PUT_GLYPH=59,
          PUSH_GLYPH_ATTR=60, PUSH_ATT_TO_GLYPH_ATTR=61, BITOR=62, BITAND=63, BITNOT=64, BITSET=65, SET_FEAT=66)

# slot attribute codes (gr_attrCode)
SLAT = dict(advX=0, advY=1, attTo=2, attX=3, attY=4, attGpt=5, attXOff=6, attYOff=7, attWithX=8, attWithY=9, withGpt=10,
            attWithXOff=11, attWithYOff=12, attLevel=13, breakw=14, compRef=15, dir=16, insert=17, posX=18, posY=19,
            shiftX=20, shiftY=21, userDefnV1=22, measureSol=23, measureEol=24, jStretch=25, jShrink=26, jStep=27, jWeight=28,
            jWidth=29, segSplit=54, userDefn=55, bidiLevel=56, colFlags=57, colLimitblx=58, colLimitbly=59, colLimittrx=60,
            colLimittry=61, colShiftx=62, colShifty=63, colMargin=64, colMarginWt=65, colExclGlyph=66, colExclOffx=67,
            colExclOffy=68, seqClass=69, seqProxClass=70, seqOrder=71, seqAboveXoff=72, seqAboveWt=73, seqBelowXlim=74,
            seqBelowWt=75, seqValignHt=76, seqValignWt=77)


def be(fmt, *a):
    return struct.pack('>' + fmt, *a)


def A(*items):
    """Tiny assembler: opcode names, ints (one byte each) and byte strings."""
    out = b''
    for it in items:
        if isinstance(it, str): out += bytes([OP[it]])
        elif isinstance(it, int): out += bytes([it & 0xFF])
        else: out += bytes(it)
    return out


def push(v):
    """Shortest push of a 32-bit value."""
    v &= 0xFFFFFFFF
    s = v - (1 << 32) if v & 0x80000000 else v
    if -128 <= s <= 127: return A('PUSH_BYTE', s)
    if 0 <= s <= 255: return A('PUSH_BYTEU', s)
    if -32768 <= s <= 32767: return A('PUSH_SHORT', (s >> 8) & 0xFF, s & 0xFF)
    if 0 <= s <= 65535: return A('PUSH_SHORTU', s >> 8, s & 0xFF)
    return A('PUSH_LONG', (v >> 24) & 0xFF, (v >> 16) & 0xFF, (v >> 8) & 0xFF, v & 0xFF)


class FieldMap(list):
    """(table, offset, width, kind) for every structural field written: used for deviation enumeration."""
    def add(self, table, off, width, kind):
        self.append((table, off, width, kind))


# --------------------------------------------------------------------------- cmap / name / Feat / Sill
def cmap_fmt4(mapping, use_array=False):
    cps = sorted(c for c in mapping if c < 0xFFFF)
    segs = []
    for c in cps:
        g = mapping[c]
        if segs and segs[-1][1] == c - 1 and (use_array or segs[-1][2] == (g - c) & 0xFFFF):
            segs[-1][1] = c; segs[-1][3].append(g)
        else:
            segs.append([c, c, (g - c) & 0xFFFF, [g]])
    term_gid = mapping.get(0xFFFF)
    segs.append([0xFFFF, 0xFFFF, (1 if term_gid is None else (term_gid - 0xFFFF)) & 0xFFFF, None])
    # a closing segment that carries real mappings: FFFF continues the run that ends at FFFE
    if term_gid is not None and not use_array and len(segs) >= 2 and segs[-2][1] == 0xFFFE and segs[-2][2] == (term_gid - 0xFFFF) & 0xFFFF:
        segs.pop(); segs[-1][1] = 0xFFFF
    n = len(segs)
    arrays = b''; roffs = []
    for i, s in enumerate(segs):
        if use_array and s[3] is not None:
            roffs.append((n - i) * 2 + len(arrays)); arrays += b''.join(be('H', g) for g in s[3])
        else:
            roffs.append(0)
    sr = 1; es = 0
    while sr * 2 <= n: sr *= 2; es += 1
    body = b''.join(be('H', s[1]) for s in segs) + be('H', 0) + b''.join(be('H', s[0]) for s in segs) \
        + b''.join(be('H', 0 if (use_array and s[3] is not None) else s[2]) for s in segs) + b''.join(be('H', r) for r in roffs) + arrays
    return be('HHHHHHH', 4, 14 + len(body), 0, n * 2, sr * 2, es, n * 2 - sr * 2) + body


def cmap_fmt12(mapping):
    cps = sorted(mapping)
    groups = []
    for c in cps:
        g = mapping[c]
        if groups and groups[-1][1] == c - 1 and groups[-1][2] + (c - groups[-1][0]) == g: groups[-1][1] = c
        else: groups.append([c, c, g])
    return be('HHIII', 12, 0, 16 + 12 * len(groups), 0, len(groups)) + b''.join(be('III', *g) for g in groups)


def build_cmap(mapping, with12=False, use_array=False, records=None, extra12=None):
    bmp = {c: g for c, g in mapping.items() if c <= 0xFFFF}
    subs = [(3, 1, cmap_fmt4(bmp, use_array))]
    if with12:
        m12 = {c: g for c, g in mapping.items() if c > 0xFFFF} or {0x10000: 0}
        if extra12: m12.update(extra12)          # entries (also BMP ones) that only the format-12 subtable has
        subs.append((3, 10, cmap_fmt12(m12)))
    if records: subs = records
    hdr = be('HH', 0, len(subs)); off = 4 + 8 * len(subs); recs = b''; data = b''
    for p, e, s in subs:
        recs += be('HHI', p, e, off + len(data)); data += s
    return hdr + recs + data


def build_name(names, extra_langs=None):
    """names: {nameid: str} (en-US, platform 3/1/0x409); extra_langs: {(nameid, langid): str}.
    A dummy record is put first because NameTable::getName cannot return record 0 (DESIGN 7.6)."""
    recs = []
    recs.append((3, 1, 0x409, 0, 'Copyright'))
    for nid in sorted(names): recs.append((3, 1, 0x409, nid, names[nid]))
    for (nid, lang) in sorted(extra_langs or {}): recs.append((3, 1, lang, nid, extra_langs[(nid, lang)]))
    recs.sort(key=lambda r: (r[0], r[1], r[2], r[3]))
    data = b''; out = b''
    for p, e, l, nid, s in recs:
        b = s.encode('utf-16-be'); out += be('HHHHHH', p, e, l, nid, len(b), len(data)); data += b
    n = len(recs)
    return be('HHH', 0, n, 6 + 12 * n) + out + data


def build_feat(feats, version=2):
    """feats: list of (id, nameid, flags, [(value, labelid), ...])."""
    n = len(feats)
    hdr = be('IHHI', 0x00020000 if version >= 2 else 0x00010000, n, 0, 0)
    recsz = 16 if version >= 2 else 12
    off = 12 + recsz * n; recs = b''; sets = b''
    for fid, nameid, flags, settings in feats:
        if version >= 2: recs += be('IHHIHH', fid, len(settings), 0, off + len(sets), flags, nameid)
        else: recs += be('HHIHH', fid & 0xFFFF, len(settings), off + len(sets), flags, nameid)
        for v, l in settings: sets += be('HH', v & 0xFFFF, l)
    return hdr + recs + sets


def build_sill(langs):
    """langs: list of (tag int, [(featid, value)])."""
    n = len(langs); hdr = be('IHHHH', 0x00010000, n, 0, 0, 0)
    off = 12 + 8 * (n + 1); recs = b''; data = b''
    for tag, st in langs:
        recs += be('IHH', tag, len(st), off + len(data))
        for f, v in st: data += be('IHH', f, v & 0xFFFF, 0)
    recs += be('IHH', 0x80808080, 0, off + len(data))
    return hdr + recs + data


# --------------------------------------------------------------------------- Glat / Gloc
def glat_entries_v1(attrs):
    items = sorted((k, v & 0xFFFF) for k, v in attrs.items() if v & 0xFFFF)
    if not items: items = [(0, 0)]
    out = b''; i = 0
    while i < len(items):
        j = i
        while j + 1 < len(items) and items[j + 1][0] == items[j][0] + 1 and j - i < 200: j += 1
        out += be('BB', items[i][0], j - i + 1) + b''.join(be('H', v) for _, v in items[i:j + 1]); i = j + 1
    return out


def glat_entries_v2(attrs):
    items = sorted((k, v & 0xFFFF) for k, v in attrs.items() if v & 0xFFFF)
    if not items: items = [(0, 0)]
    out = b''; i = 0
    while i < len(items):
        j = i
        while j + 1 < len(items) and items[j + 1][0] == items[j][0] + 1: j += 1
        out += be('HH', items[i][0], j - i + 1) + b''.join(be('H', v) for _, v in items[i:j + 1]); i = j + 1
    return out


def build_glat_gloc(glyphs, num_attrs, version=1, long_fmt=False, extra_attr_glyphs=0):
    """glyphs: list of dicts with 'attrs' and (v3) optional 'octabox': dict(bitmap, diag=(4 bytes), subs=[8-byte tuples])."""
    glat = be('I', version << 16)
    if version >= 3: glat += be('I', 1)
    locs = []
    allg = list(glyphs) + [dict(attrs={}) for _ in range(extra_attr_glyphs)]
    for g in allg:
        locs.append(len(glat))
        if version >= 3:
            ob = g.get('octabox') or dict(bitmap=0, diag=(0, 255, 0, 255), subs=[])
            glat += be('H', ob['bitmap']) + bytes(ob['diag'])
            for sb in ob['subs']: glat += bytes(sb)
        glat += glat_entries_v1(g.get('attrs', {})) if version < 2 else glat_entries_v2(g.get('attrs', {}))
    locs.append(len(glat))
    gloc = be('IHH', 0x00010000, 1 if long_fmt else 0, num_attrs) + b''.join(be('I' if long_fmt else 'H', l) for l in locs)
    return glat, gloc


# --------------------------------------------------------------------------- Silf
class Rule:
    def __init__(self, pre, pattern, action, constraint=b'', name=''):
        """pattern: list of sets of glyph ids, INCLUDING the pre-context items; pre = number of pre-context items."""
        self.pre = pre; self.pattern = [set(p) for p in pattern]; self.action = action; self.constraint = constraint; self.name = name; self.sort = None   # sort key override (default: pattern length)


def build_fsm(rules, num_glyphs):
    """Subset construction. Returns dict(ncols, ranges, order(states), trans, ntrans, nsucc, rulemap, orm, minpre, maxpre, start_states)."""
    nr = len(rules)
    minpre = min(r.pre for r in rules); maxpre = max(r.pre for r in rules)
    offs = [maxpre - r.pre for r in rules]          # number of leading wildcard positions of each rule
    wild = minpre != maxpre
    # columns: partition glyphs by membership signature over (rule, position); wildcard positions match every glyph
    sig = {}
    for g in range(num_glyphs):
        s = tuple((ri, pi) for ri, r in enumerate(rules) for pi, cl in enumerate(r.pattern) if g in cl)
        if s or wild: sig.setdefault(s, []).append(g)
    cols = list(sig.values()); ncols = len(cols)
    colsig = [set(s) for s in sig.keys()]
    colof = {g: ci for ci, gl in enumerate(cols) for g in gl}

    def step(I, c):
        J = set()
        for (ri, pos) in I:
            if pos < 0: J.add((ri, pos + 1))
            elif pos < len(rules[ri].pattern) and (ri, pos) in colsig[c]: J.add((ri, pos + 1))
        return frozenset(J)
    starts = [frozenset((ri, k - offs[ri]) for ri in range(nr) if offs[ri] >= k) for k in range(maxpre - minpre + 1)]
    states = [starts[0]]; index = {starts[0]: 0}; trans = {}; work = [starts[0]]
    for st in starts[1:]:
        if st not in index: index[st] = len(states); states.append(st); work.append(st)
    while work:
        I = work.pop()
        for c in range(ncols):
            J = step(I, c)
            if not J: continue
            if J not in index: index[J] = len(states); states.append(J); work.append(J)
            trans[(index[I], c)] = index[J]

    def accepts(I): return sorted(ri for (ri, pos) in I if pos == len(rules[ri].pattern))
    def transitional(si): return any((si, c) in trans for c in range(ncols))
    others = range(1, len(states))
    order = [0] + [s for s in others if transitional(s) and not accepts(states[s])] \
        + [s for s in others if transitional(s) and accepts(states[s])] \
        + [s for s in others if not transitional(s)]
    # a non-transitional, non-accepting state can only be a start state for which nothing matches: keep it transitional-free but legal
    renum = {old: new for new, old in enumerate(order)}
    nstates = len(states)
    ntrans = sum(1 for s in range(nstates) if transitional(s))
    if not transitional(0): ntrans += 1        # state 0 must own a (all-zero) transition row
    succ = [s for s in order if accepts(states[s])]
    nonacc_final = [s for s in order if not transitional(s) and not accepts(states[s]) and s != 0]
    # put non-accepting final states (possible only as start states) into the transitional block with empty rows
    if nonacc_final:
        order = [0] + [s for s in others if (transitional(s) or s in nonacc_final) and not accepts(states[s])] \
            + [s for s in others if transitional(s) and accepts(states[s])] \
            + [s for s in others if not transitional(s) and accepts(states[s])]
        renum = {old: new for new, old in enumerate(order)}
        ntrans += len(nonacc_final)
    nsucc = len(succ)
    assert [s for s in order if accepts(states[s])] == order[nstates - nsucc:], 'success states must be a suffix'
    ranges = []
    for g in sorted(colof):
        if ranges and ranges[-1][1] == g - 1 and ranges[-1][2] == colof[g]: ranges[-1][1] = g
        else: ranges.append([g, g, colof[g]])
    rulemap = []; orm = []
    for s in order[nstates - nsucc:]:
        orm.append(len(rulemap)); rulemap += accepts(states[s])
    orm.append(len(rulemap))
    rows = []
    for s in order[:ntrans]:
        rows.append([renum[trans[(s, c)]] if (s, c) in trans else 0 for c in range(ncols)])
    return dict(ncols=ncols, ranges=ranges, nstates=nstates, ntrans=ntrans, nsucc=nsucc, rulemap=rulemap, orm=orm,
                minpre=minpre, maxpre=maxpre, start_states=[renum[index[st]] for st in starts], rows=rows)


def build_pass(P, sub_off_of_pass, num_glyphs, fm=None, tname='Silf', tbase=0):
    rules = P.get('rules', [])
    nr = len(rules)
    flags = P.get('flags', 0)
    if nr:
        F = build_fsm(rules, num_glyphs)
    else:
        F = dict(ncols=0, ranges=[], nstates=0, ntrans=0, nsucc=0, rulemap=[], orm=[0], minpre=0, maxpre=0, start_states=[0], rows=[])
    ccode = b'\x00'; ocon = []
    for r in rules:
        if r.constraint: ocon.append(len(ccode)); ccode += r.constraint
        else: ocon.append(0)
    ocon.append(len(ccode))
    acode = b''; oact = []
    for r in rules:
        oact.append(len(acode)); acode += r.action
    oact.append(len(acode))
    pcon = P.get('pconstraint', b'')
    body = b''.join(be('HHH', *r) for r in F['ranges'])
    body += b''.join(be('H', o) for o in F['orm']) + b''.join(be('H', r) for r in F['rulemap'])
    body += be('BB', F['minpre'], F['maxpre']) + b''.join(be('H', s) for s in F['start_states'])
    body += b''.join(be('H', len(r.pattern) if r.sort is None else r.sort) for r in rules) + bytes(r.pre for r in rules)
    body += be('B', P.get('colthresh', 0)) + be('H', len(pcon))
    body += b''.join(be('H', o) for o in ocon) + b''.join(be('H', o) for o in oact)
    for row in F['rows']: body += b''.join(be('H', t) for t in row)
    body += b'\x00'
    pc = sub_off_of_pass + 40 + len(body); rc = pc + len(pcon); ac = rc + len(ccode)
    maxrule = max([len(r.pattern) for r in rules] or [0])
    hdr = be('BBBBHH', flags, P.get('maxloop', 5), maxrule, F['maxpre'], nr, 0)
    hdr += be('IIII', pc, rc, ac, 0) + be('HHHHH', F['nstates'], F['ntrans'], F['nsucc'], F['ncols'], len(F['ranges'])) + be('HHH', 0, 0, 0)
    assert len(hdr) == 40
    if fm is not None:
        b0 = tbase
        for off, w, kind in ((0, 1, 'pass.flags'), (1, 1, 'pass.maxloop'), (2, 1, 'pass.maxctx'), (3, 1, 'pass.maxbackup'), (4, 2, 'pass.numRules'),
                             (8, 4, 'pass.pcCode'), (12, 4, 'pass.rcCode'), (16, 4, 'pass.aCode'), (24, 2, 'pass.numRows'), (26, 2, 'pass.numTrans'),
                             (28, 2, 'pass.numSuccess'), (30, 2, 'pass.numCols'), (32, 2, 'pass.numRanges')):
            fm.add(tname, b0 + off, w, kind)
        o = b0 + 40
        for _ in F['ranges']:
            fm.add(tname, o, 2, 'range.first'); fm.add(tname, o + 2, 2, 'range.last'); fm.add(tname, o + 4, 2, 'range.col'); o += 6
        for _ in F['orm']: fm.add(tname, o, 2, 'oRuleMap'); o += 2
        for _ in F['rulemap']: fm.add(tname, o, 2, 'ruleMap'); o += 2
        fm.add(tname, o, 1, 'minPre'); fm.add(tname, o + 1, 1, 'maxPre'); o += 2
        for _ in F['start_states']: fm.add(tname, o, 2, 'startState'); o += 2
        for _ in rules: fm.add(tname, o, 2, 'sortKey'); o += 2
        for _ in rules: fm.add(tname, o, 1, 'rulePre'); o += 1
        fm.add(tname, o, 1, 'colThreshold'); fm.add(tname, o + 1, 2, 'pConstraintLen'); o += 3
        for _ in ocon: fm.add(tname, o, 2, 'oConstraint'); o += 2
        for _ in oact: fm.add(tname, o, 2, 'oAction'); o += 2
        for row in F['rows']:
            for _ in row: fm.add(tname, o, 2, 'transition'); o += 2
        o += 1
        for k in range(len(pcon) + len(ccode) + len(acode)): fm.add(tname, o + k, 1, 'bytecode')
    return hdr + body + pcon + ccode + acode


def build_classmap(classes, nlinear, version):
    """classes: list of lists of gids. The first nlinear are linear (output) classes, the rest lookup classes."""
    ncl = len(classes); wide = version >= 4
    osz = 4 if wide else 2
    off = 4 + osz * (ncl + 1); offs = []; data = b''
    for i, cl in enumerate(classes):
        offs.append(off + len(data))
        if i < nlinear:
            data += b''.join(be('H', g) for g in cl)
        else:
            pairs = sorted((g, idx) for idx, g in enumerate(cl)); n = len(pairs)
            sr = 1 if n else 0; es = 0
            while sr and sr * 2 <= n: sr *= 2; es += 1
            data += be('HHHH', n, sr, es, n - sr) + b''.join(be('HH', g, idx) for g, idx in pairs)
    offs.append(off + len(data))
    return be('HH', ncl, nlinear) + b''.join(be('I' if wide else 'H', o) for o in offs) + data


def build_silf(S, num_glyphs, fm=None):
    version = S.get('version', 3)
    passes = S['passes']; np_ = len(passes)
    classes = S.get('classes', [])
    nlinear = S.get('nlinear', len(classes))
    classmap = build_classmap(classes, nlinear, version)
    pseudos = S.get('pseudos', [])
    jlevels = S.get('jlevels', [])      # list of (attrStretch, attrShrink, attrStep, attrWeight)
    isub = S.get('iSubst', 0); ipos = S.get('iPos', np_); ijust = S.get('iJust', np_); ibidi = S.get('iBidi', 0xFF)
    crit = S.get('critFeatures', []); scripts = S.get('scriptTags', [])
    head = be('HhhBBBBBBBBBBBBBB', S.get('maxGlyph', num_glyphs - 1), S.get('extraAscent', 0), S.get('extraDescent', 0), np_, isub, ipos, ijust, ibidi,
              S.get('flags', 0), S.get('maxPre', 1), S.get('maxPost', 1),
              S.get('aPseudo', 0), S.get('aBreak', 1), S.get('aBidi', 2), S.get('aMirror', 3), S.get('aPassBits', 0), len(jlevels))
    for j in jlevels: head += be('BBBBBBBB', j[0], j[1], j[2], j[3], 0, 0, 0, 0)
    head += be('HBBBB', S.get('numLigComp', 0), S.get('numUser', 0), S.get('maxComp', 0), S.get('dir', 0) + 1, S.get('aCollision', 0)) + b'\0\0\0'
    head += be('B', len(crit)) + b''.join(be('H', c) for c in crit) + be('B', 0)
    head += be('B', len(scripts)) + b''.join(be('I', s) for s in scripts)
    head += be('H', S.get('lbGID', 0))
    pre = 8 if version >= 3 else 0
    fixed = pre + len(head) + 4 * (np_ + 1) + 8 + 6 * len(pseudos) + len(classmap)
    nsub = S.get('numSub', 1)
    tophdr_len = (8 if version >= 3 else 4) + 4 + 4 * nsub
    sub_base = tophdr_len
    pbytes = []; o = fixed; opass = []
    for P in passes:
        opass.append(o); b = build_pass(P, o, num_glyphs, fm, 'Silf', sub_base + o); pbytes.append(b); o += len(b)
    opass.append(o)
    sub = b''
    if version >= 3: sub += be('IHH', S.get('ruleVersion', version << 16), opass[0], pre + len(head) + 4 * (np_ + 1))
    sub += head + b''.join(be('I', x) for x in opass)
    sub += be('HHHH', len(pseudos), 0, 0, 0) + b''.join(be('IH', u, g) for u, g in pseudos) + classmap
    assert len(sub) == fixed, (len(sub), fixed)
    sub += b''.join(pbytes)
    top = be('I', S.get('tableVersion', version << 16))
    if version >= 3: top += be('I', S.get('compilerVersion', 0x00050000))
    top += be('HH', nsub, 0) + b''.join(be('I', tophdr_len) for _ in range(nsub))
    if fm is not None:
        fm.add('Silf', 0, 4, 'silf.version'); fm.add('Silf', len(top) - 4 * nsub - 4, 2, 'silf.numSub')
        for k in range(nsub): fm.add('Silf', len(top) - 4 * nsub + 4 * k, 4, 'silf.subOffset')
        b0 = sub_base
        if version >= 3:
            fm.add('Silf', b0, 4, 'sub.ruleVersion'); fm.add('Silf', b0 + 4, 2, 'sub.passOffset'); fm.add('Silf', b0 + 6, 2, 'sub.pseudosOffset')
        h = b0 + pre
        names = ['maxGlyph:2', 'extraAscent:2', 'extraDescent:2', 'numPasses:1', 'iSubst:1', 'iPos:1', 'iJust:1', 'iBidi:1', 'flags:1', 'maxPre:1', 'maxPost:1',
                 'aPseudo:1', 'aBreak:1', 'aBidi:1', 'aMirror:1', 'aPassBits:1', 'numJLevels:1']
        for nm in names:
            k, w = nm.split(':'); fm.add('Silf', h, int(w), 'sub.' + k); h += int(w)
        for _ in jlevels:
            for k in range(8): fm.add('Silf', h + k, 1, 'jlevel')
            h += 8
        for nm in ['numLigComp:2', 'numUser:1', 'maxComp:1', 'dir:1', 'aCollision:1', 'res1:1', 'res2:1', 'res3:1', 'numCritFeatures:1']:
            k, w = nm.split(':'); fm.add('Silf', h, int(w), 'sub.' + k); h += int(w)
        for _ in crit: fm.add('Silf', h, 2, 'critFeature'); h += 2
        fm.add('Silf', h, 1, 'sub.res4'); h += 1
        fm.add('Silf', h, 1, 'sub.numScriptTag'); h += 1
        for _ in scripts: fm.add('Silf', h, 4, 'scriptTag'); h += 4
        fm.add('Silf', h, 2, 'sub.lbGID'); h += 2
        for _ in opass: fm.add('Silf', h, 4, 'oPass'); h += 4
        fm.add('Silf', h, 2, 'numPseudo'); h += 8
        for _ in pseudos: fm.add('Silf', h, 4, 'pseudo.uid'); fm.add('Silf', h + 4, 2, 'pseudo.gid'); h += 6
        fm.add('Silf', h, 2, 'numClass'); fm.add('Silf', h + 2, 2, 'numLinear'); c0 = h; h += 4
        osz = 4 if version >= 4 else 2
        for _ in range(len(classes) + 1): fm.add('Silf', h, osz, 'classOffset'); h += osz
        while h < c0 + len(classmap): fm.add('Silf', h, 2, 'classData'); h += 2
    return top + sub


# --------------------------------------------------------------------------- LZ4 (greedy encoder) and compressed wrapper
def lz4_greedy(data, min_match=4):
    """Simple greedy LZ4 block encoder obeying the end-of-block rules (last 5 bytes literal, last match starts >= 12 before end)."""
    n = len(data); out = bytearray(); i = 0; anchor = 0; table = {}
    def emit(lit, mlen, off):
        ll = len(lit); tok_l = min(ll, 15); tok_m = 0 if mlen is None else min(mlen - 4, 15)
        out.append((tok_l << 4) | tok_m)
        if ll >= 15:
            r = ll - 15
            while r >= 255: out.append(255); r -= 255
            out.append(r)
        out.extend(lit)
        if mlen is not None:
            out.extend(struct.pack('<H', off))
            if mlen - 4 >= 15:
                r = mlen - 4 - 15
                while r >= 255: out.append(255); r -= 255
                out.append(r)
    while i + 12 < n:
        key = bytes(data[i:i + 4]); j = table.get(key); table[key] = i
        if j is not None and i - j <= 0xFFFF:
            m = 4
            while i + m < n - 5 and data[j + m] == data[i + m]: m += 1
            if m >= min_match:
                emit(data[anchor:i], m, i - j); i += m; anchor = i; continue
        i += 1
    emit(data[anchor:], None, 0)
    return bytes(out)


def compress_table(plain, version_word=None):
    """[version u32][scheme:5|size:27][LZ4 block]; the plaintext starts with the same version word."""
    ver = plain[:4] if version_word is None else version_word
    return ver + be('I', (1 << 27) | (len(plain) & 0x07FFFFFF)) + lz4_greedy(plain)


# --------------------------------------------------------------------------- whole font
def build_tables(F, fieldmap=None):
    glyphs = F['glyphs']; ng = len(glyphs); upem = F.get('upem', 1000)
    head = be('IIIIHH', 0x00010000, 0, 0, 0x5F0F3CF5, 0, upem) + b'\0' * 16 + be('hhhhHHhhh', 0, 0, upem, upem, 0, 8, 2, F.get('locaFormat', 0), 0)
    assert len(head) == 54
    hhea = be('IhhhHhhhhhhhhhhhH', 0x00010000, 800, -200, 0, upem, 0, 0, upem, 1, 0, 0, 0, 0, 0, 0, 0, F.get('numHMetrics', ng))
    assert len(hhea) == 36
    maxp = be('IH', 0x00010000, ng) + b'\0' * 26
    hmtx = b''.join(be('Hh', g.get('adv', 500), 0) for g in glyphs)
    num_attrs = F.get('num_attrs', 16)
    glat, gloc = build_glat_gloc(glyphs, num_attrs, F.get('glat_version', 1), F.get('gloc_long', False), F.get('extra_attr_glyphs', 0))
    silf = build_silf(F['silf'], ng + F.get('extra_attr_glyphs', 0), fieldmap)
    tables = {b'head': head, b'hhea': hhea, b'maxp': maxp, b'hmtx': hmtx,
              b'cmap': build_cmap(F['cmap'], F.get('cmap12', False), F.get('cmap_array', False), extra12=F.get('cmap12_extra')), b'Silf': silf, b'Glat': glat, b'Gloc': gloc}
    if F.get('glyf'):
        # simple glyf/loca: each glyph gets a header-only outline with its bbox
        glyf = b''; loca = [0]
        for g in glyphs:
            bb = g.get('bbox')
            if bb: glyf += be('hhhhh', 0, *bb) + b'\0\0'
            while len(glyf) % 4: glyf += b'\0'
            loca.append(len(glyf))
        if not glyf: glyf = b'\0\0\0\0'
        tables[b'glyf'] = glyf
        tables[b'loca'] = b''.join(be('H', l // 2) for l in loca) if F.get('locaFormat', 0) == 0 else b''.join(be('I', l) for l in loca)
    if F.get('names') is not None: tables[b'name'] = build_name(F['names'], F.get('names_extra'))
    if F.get('feats') is not None: tables[b'Feat'] = build_feat(F['feats'], F.get('feat_version', 2))
    if F.get('langs') is not None: tables[b'Sill'] = build_sill(F['langs'])
    for t in F.get('compress', ()):
        tb = t.encode() if isinstance(t, str) else t
        plain = tables[tb]
        tables[tb] = compress_table(plain)
    if fieldmap is not None:
        fieldmap.add('head', 18, 2, 'head.upem'); fieldmap.add('head', 50, 2, 'head.indexToLocFormat'); fieldmap.add('head', 12, 4, 'head.magic')
        fieldmap.add('hhea', 34, 2, 'hhea.numHMetrics'); fieldmap.add('maxp', 4, 2, 'maxp.numGlyphs'); fieldmap.add('maxp', 0, 4, 'maxp.version')
        fieldmap.add('Gloc', 0, 4, 'gloc.version'); fieldmap.add('Gloc', 4, 2, 'gloc.flags'); fieldmap.add('Gloc', 6, 2, 'gloc.numAttrs')
        w = 4 if F.get('gloc_long') else 2
        for k in range(ng + F.get('extra_attr_glyphs', 0) + 1): fieldmap.add('Gloc', 8 + w * k, w, 'gloc.offset')
        fieldmap.add('Glat', 0, 4, 'glat.version')
        cm = tables[b'cmap']
        fieldmap.add('cmap', 2, 2, 'cmap.numTables')
        nt = struct.unpack('>H', cm[2:4])[0]
        for k in range(nt):
            fieldmap.add('cmap', 4 + 8 * k, 2, 'cmap.platform'); fieldmap.add('cmap', 6 + 8 * k, 2, 'cmap.encoding'); fieldmap.add('cmap', 8 + 8 * k, 4, 'cmap.offset')
            so = struct.unpack('>I', cm[8 + 8 * k:12 + 8 * k])[0]
            fmt = struct.unpack('>H', cm[so:so + 2])[0]
            if fmt == 4:
                for off, kind in ((0, 'fmt4.format'), (2, 'fmt4.length'), (6, 'fmt4.segCountX2')): fieldmap.add('cmap', so + off, 2, kind)
            elif fmt == 12:
                fieldmap.add('cmap', so, 2, 'fmt12.format'); fieldmap.add('cmap', so + 4, 4, 'fmt12.length'); fieldmap.add('cmap', so + 12, 4, 'fmt12.numGroups')
        if b'Feat' in tables:
            fieldmap.add('Feat', 0, 4, 'feat.version'); fieldmap.add('Feat', 4, 2, 'feat.numFeat')
            recsz = 16 if F.get('feat_version', 2) >= 2 else 12
            for k in range(len(F['feats'])):
                b0 = 12 + recsz * k
                if recsz == 16: fieldmap.add('Feat', b0 + 4, 2, 'feat.numSettings'); fieldmap.add('Feat', b0 + 8, 4, 'feat.settingsOffset')
                else: fieldmap.add('Feat', b0 + 2, 2, 'feat.numSettings'); fieldmap.add('Feat', b0 + 4, 4, 'feat.settingsOffset')
        if b'Sill' in tables:
            fieldmap.add('Sill', 0, 4, 'sill.version'); fieldmap.add('Sill', 4, 2, 'sill.numLangs')
            for k in range(len(F['langs']) + 1): fieldmap.add('Sill', 12 + 8 * k + 4, 2, 'sill.numSettings'); fieldmap.add('Sill', 12 + 8 * k + 6, 2, 'sill.offset')
        if b'name' in tables:
            fieldmap.add('name', 2, 2, 'name.count'); fieldmap.add('name', 4, 2, 'name.stringOffset')
            cnt = struct.unpack('>H', tables[b'name'][2:4])[0]
            for k in range(cnt): fieldmap.add('name', 6 + 12 * k + 8, 2, 'name.length'); fieldmap.add('name', 6 + 12 * k + 10, 2, 'name.offset')
    return tables


def sfnt(tables, directory_order='sorted'):
    tags = sorted(tables); n = len(tags)
    if directory_order == 'reversed': tags = tags[::-1]          # the library's own file reader searches the directory linearly: any order must work
    out = be('IHHHH', 0x00010000, n, 0, 0, 0); off = 12 + 16 * n; recs = b''; data = b''
    for t in tags:
        d = tables[t]; recs += t + be('III', 0, off + len(data), len(d)); data += d + b'\0' * (-len(d) % 4)
    return out + recs + data


def build_font(F):
    return sfnt(build_tables(F))


def write_stream(fh, tables, meta=b''):
    """Length-prefixed table list for the C++ harnesses: u32 nmeta, meta, u32 ntables, then (tag4, u32 len, bytes)*."""
    fh.write(struct.pack('<I', len(meta))); fh.write(meta)
    fh.write(struct.pack('<I', len(tables)))
    for t in sorted(tables):
        fh.write(t); fh.write(struct.pack('<I', len(tables[t]))); fh.write(tables[t])
