#!/usr/bin/env python3
"""Program enumerators: every action / constraint program over a small atom alphabet up to a length, embedded in a
tiny font, written as a record stream (see src/common/stream.hpp) to stdout.

  progenum.py <family> <tier> <shard> <nshards>         families: action, constraint, twopass
"""
import sys, os, struct, json, itertools
sys.path.insert(0, os.path.dirname(os.path.abspath(__file__)))
from fontgen import *
from seeds import tag

# glyphs: 0 notdef, 1 space, 2 a, 3 b, 4 c, 5 x, 6 y, 7 acute(mark), 8 d
GL = dict(notdef=0, space=1, a=2, b=3, c=4, x=5, y=6, acute=7, d=8)
CLASSES = [[5], [6], [5, 6], [2, 3]]          # c0 [x]  c1 [y]  c2 [x y] (output of put_subs)  c3 [a b] (input of put_subs)
NLINEAR = 3


def base_font():
    glyphs = [dict(adv=500, attrs={5: i, 6: i % 2}) for i in range(9)]
    glyphs[7]['adv'] = 0; glyphs[7]['attrs'][2] = 16       # the mark has bidi class 16 (non-spacing mark): reverseSlots keeps such glyphs after their base
    cm = {0x20: 1, 0x61: 2, 0x62: 3, 0x63: 4, 0x301: 7, 0x64: 8}
    return dict(glyphs=glyphs, cmap=cm, num_attrs=16, names={256: 'F'}, feats=[(tag('tst1'), 256, 0, [(0, 256), (1, 256), (3, 256)])], langs=[])


def att(k): return push(k) + A('ATTR_SET_SLOT', SLAT['attTo'])

ACTION_ATOMS = [
    ('next', A('NEXT')),
    ('glyph_x', A('PUT_GLYPH', 0, 0)), ('glyph_y', A('PUT_GLYPH', 0, 1)),
    ('subs0', A('PUT_SUBS', 0, 0, 3, 0, 2)), ('subs-1', A('PUT_SUBS', 0xFF, 0, 3, 0, 2)), ('subs+1', A('PUT_SUBS', 1, 0, 3, 0, 2)),
    ('copy-1', A('PUT_COPY', 0xFF)), ('copy0', A('PUT_COPY', 0)), ('copy+1', A('PUT_COPY', 1)),
    ('insert', A('INSERT')), ('delete', A('DELETE')),
    ('assoc0', A('ASSOC', 1, 0)), ('assoc-1+1', A('ASSOC', 2, 0xFF, 1)),
    ('att-2', att(-2)), ('att-1', att(-1)), ('att0', att(0)), ('att+1', att(1)), ('att+2', att(2)),
    ('adv', push(100) + A('ATTR_SET', SLAT['advX'])), ('shift', push(-50) + A('ATTR_SET', SLAT['shiftX'])), ('attx', push(30) + A('ATTR_SET', SLAT['attX'])),
    ('noins', push(0) + A('ATTR_SET', SLAT['insert'])), ('user', push(7) + A('IATTR_SET', SLAT['userDefn'], 0)), ('setfeat', push(1) + A('SET_FEAT', 0, 0)),
    ('rd_slot', A('PUSH_SLOT_ATTR', SLAT['advX'], 0, 'ATTR_SET', SLAT['shiftY'])), ('rd_gattr', A('PUSH_GLYPH_ATTR', 0, 5, 0, 'IATTR_SET', SLAT['userDefn'], 0)),
]
POS_LEGAL = [i for i, (n, _) in enumerate(ACTION_ATOMS) if n not in ('insert', 'delete')]
NA_BASE = len(ACTION_ATOMS)
# macro atoms used only by explicit extra programs: run-time stack use deeper than the loader's linear depth analysis accounts for
ACTION_ATOMS += [('setfeat_x%d' % k, push(1) + A('SET_FEAT', 0, 0) * k) for k in (2, 3, 4, 8, 20)]
TERMS = [('ret0', A('RET_ZERO'))] + [('ret%+d' % k, push(k) + A('POP_RET')) for k in (-2, -1, 0, 1, 2)]

CONSTRAINT_ATOMS = [
    ('p0', push(0)), ('p1', push(1)), ('p-1', push(-1)), ('p5', push(5)),
    ('gattr', A('PUSH_GLYPH_ATTR', 0, 5, 0)), ('sattr', A('PUSH_SLOT_ATTR', SLAT['advX'], 0)), ('feat', A('PUSH_FEAT', 0, 0)), ('uattr', A('PUSH_ISLOT_ATTR', SLAT['userDefn'], 0, 0)),
    ('add', A('ADD')), ('sub', A('SUB')), ('eq', A('EQUAL')), ('lt', A('LESS')), ('and', A('AND')), ('or', A('OR')), ('not', A('NOT')), ('div', A('DIV')), ('cond', A('COND')),
    ('ctx0_0', None), ('ctx0_1', None), ('ctx1_2', None),    # CNTXT_ITEM bodies netting 0 / +1 / +2 values (filled below)
]
CTX_BODIES = {'ctx0_0': (0, A('NOP')), 'ctx0_1': (0, push(1)), 'ctx1_2': (1, push(1) + push(2))}
CTERMS = [('popret', A('POP_RET')), ('rettrue', A('RET_TRUE')), ('retzero', A('RET_ZERO'))]
NC_BASE = len(CONSTRAINT_ATOMS)
# explicit extra programs: a CNTXT_ITEM body of k pushes (skipped at run time on every other slot) followed by k-1 binary operators
DEEP = [(k, slot, opn) for k in (2, 3, 4, 6, 9, 16) for slot in (0, 1) for opn in ('AND', 'ADD', 'OR')]
for k, slot, opn in DEEP:
    CTX_BODIES['ctx%d_push%d' % (slot, k)] = (slot, push(1) * k)
    CONSTRAINT_ATOMS += [('ctx%d_push%d' % (slot, k), None), ('%s_x%d' % (opn.lower(), k - 1), A(opn) * (k - 1))]


def catom(name, code):
    if code is not None: return code
    slot, body = CTX_BODIES[name]
    return A('CNTXT_ITEM', slot, len(body)) + body


def fixed_attach_pass():
    anyg = {2, 3, 5, 6}
    return dict(maxloop=2, rules=[Rule(0, [anyg, {5, 6, 7}], A('NEXT') + att(-1) + push(40) + A('ATTR_SET', SLAT['attY'], 'NEXT', 'RET_ZERO'))])


def font_for_action(cfg, atoms, term, second=None):
    """cfg = (rule_len, pre, maxloop, where) ; atoms: list of indices into ACTION_ATOMS"""
    L, pre, loop, where = cfg
    code = b''.join(ACTION_ATOMS[a][1] for a in atoms) + TERMS[term][1]
    F = base_font()
    ab = {2, 3}
    rule = Rule(pre, [ab] * L, code)
    if where == 'sub':
        rules = [rule] + ([second] if second else [])
        passes = [dict(maxloop=loop, rules=rules), fixed_attach_pass()]; ipos = 1
    else:
        passes = [dict(maxloop=2, rules=[Rule(0, [{3}], A('PUT_GLYPH', 0, 0, 'NEXT', 'RET_ZERO'))]), dict(maxloop=loop, rules=[rule])]; ipos = 1
    F['silf'] = dict(version=3, passes=passes, classes=CLASSES, nlinear=NLINEAR, iSubst=0, iPos=ipos, numUser=1, maxPre=1, maxPost=3)
    return F


def enum_action_campaign(which):
    """One-off deep explorations beyond the registered tiers (bin/campaign.py): 5-atom structural programs in the other rule contexts, 6-atom programs of a narrowed shape."""
    structural = [i for i, (n, _) in enumerate(ACTION_ATOMS) if n in ('next', 'glyph_x', 'subs+1', 'copy-1', 'copy+1', 'insert', 'delete', 'assoc-1+1', 'att-1', 'att+1', 'att0')]
    spos = [i for i in structural if ACTION_ATOMS[i][0] not in ('insert', 'delete')]
    if which == 'campaign5':
        for cfg in ((3, 1, 5, 'sub'), (1, 0, 1, 'sub'), (3, 0, 5, 'sub')):
            for atoms in itertools.product(structural, repeat=5): yield ('action', cfg, atoms, 0)
        for cfg in ((2, 0, 1, 'pos'), (2, 1, 2, 'pos')):
            for atoms in itertools.product(spos, repeat=5): yield ('action', cfg, atoms, 0)
    elif which == 'campaign6':
        idx = {n: i for i, (n, _) in enumerate(ACTION_ATOMS)}
        must = [{idx['delete'], idx['insert']}, {idx['copy-1'], idx['copy+1']}, {idx['att-1'], idx['att+1'], idx['att0']}]
        for cfg in ((2, 0, 2, 'sub'), (3, 1, 5, 'sub')):
            for atoms in itertools.product(structural, repeat=6):
                sa = set(atoms)
                if sum(1 for m in must if sa & m) < 2: continue
                yield ('action', cfg, atoms, 0)


def enum_action(tier):
    if tier.startswith('campaign'):
        yield from enum_action_campaign(tier); return
    thorough = tier == 'thorough'
    cfgs = [(2, 0, 2, 'sub'), (3, 1, 5, 'sub'), (2, 0, 1, 'pos')]
    if thorough: cfgs += [(1, 0, 1, 'sub'), (3, 0, 5, 'sub'), (2, 1, 2, 'pos')]
    na = NA_BASE
    for ci, cfg in enumerate(cfgs):
        alpha = list(range(na)) if cfg[3] == 'sub' else POS_LEGAL
        maxlen_all = 3
        for n in range(0, maxlen_all + 1):
            for atoms in itertools.product(alpha, repeat=n):
                for t in range(len(TERMS)):
                    yield ('action', cfg, atoms, t)
        # thorough: one more atom with the plain terminator only, and 5 atoms over the structural subset
        if thorough and ci in (0, 2):
            for atoms in itertools.product(alpha, repeat=4):
                yield ('action', cfg, atoms, 0)
    # programs whose run-time stack use exceeds the loader's linear depth analysis
    for a in range(NA_BASE, len(ACTION_ATOMS)):
        for cfg in cfgs[:3]:
            yield ('action', cfg, (a,), 0); yield ('action', cfg, (0, a), 0)
    # (4-, 5- and 6-atom programs over the structural atoms are the 'deep' family)


def enum_constraint(tier):
    thorough = tier == 'thorough'
    nc = NC_BASE
    maxlen = 5 if thorough else 4
    for n in range(0, maxlen + 1):
        for atoms in itertools.product(range(nc), repeat=n):
            # CNTXT_ITEM may not be nested and only makes sense once or twice: prune programs with more than two of them
            if sum(1 for a in atoms if a >= nc - 3) > 2: continue
            for t in range(len(CTERMS)):
                yield ('constraint', atoms, t)
    names = [n for n, _ in CONSTRAINT_ATOMS]
    for k, slot, opn in DEEP:
        yield ('constraint', (names.index('ctx%d_push%d' % (slot, k)), names.index('%s_x%d' % (opn.lower(), k - 1))), 0)


def font_for_constraint(atoms, term):
    code = b''.join(catom(*CONSTRAINT_ATOMS[a]) for a in atoms) + CTERMS[term][1]
    F = base_font(); ab = {2, 3}
    rule = Rule(0, [ab, ab], A('PUT_GLYPH', 0, 0, 'NEXT', 'PUT_GLYPH', 0, 1, 'NEXT', 'RET_ZERO'), code)
    F['silf'] = dict(version=3, passes=[dict(maxloop=3, rules=[rule]), fixed_attach_pass()], classes=CLASSES, nlinear=NLINEAR, iSubst=0, iPos=1, numUser=1, maxPre=1, maxPost=3)
    return F


TWOPASS_RULES = None
def twopass_rules():
    """A menu of hand-written rules stressing attachments / re-attachment / deletion of attached slots / insertion at both ends."""
    ab = {2, 3}; xy = {5, 6}; anyg = {2, 3, 5, 6}
    R = []
    R.append(('attach_fwd', Rule(0, [anyg, anyg], att(1) + A('NEXT', 'NEXT', 'RET_ZERO'))))
    R.append(('attach_back', Rule(0, [anyg, anyg], A('NEXT') + att(-1) + A('NEXT', 'RET_ZERO'))))
    R.append(('attach_mutual', Rule(0, [anyg, anyg], att(1) + A('NEXT') + att(-1) + A('NEXT', 'RET_ZERO'))))
    R.append(('attach_chain3', Rule(0, [anyg, anyg, anyg], A('NEXT') + att(-1) + A('NEXT') + att(-1) + A('NEXT', 'RET_ZERO'))))
    R.append(('reattach', Rule(0, [anyg, anyg, anyg], A('NEXT', 'NEXT') + att(-1) + att(-2) + A('NEXT', 'RET_ZERO'))))
    R.append(('delete_first', Rule(0, [ab, ab], A('DELETE', 'NEXT', 'NEXT', 'RET_ZERO'))))
    R.append(('delete_second', Rule(0, [ab, ab], A('NEXT', 'DELETE', 'NEXT', 'RET_ZERO'))))
    R.append(('delete_all2', Rule(0, [ab, ab], A('DELETE', 'NEXT', 'DELETE', 'NEXT', 'RET_ZERO'))))
    R.append(('delete_one', Rule(0, [ab], A('DELETE', 'NEXT', 'RET_ZERO'))))
    R.append(('insert_front', Rule(0, [ab], A('INSERT', 'PUT_GLYPH', 0, 0, 'NEXT', 'NEXT', 'RET_ZERO'))))
    R.append(('insert_back', Rule(0, [ab], A('NEXT', 'INSERT', 'PUT_GLYPH', 0, 1, 'NEXT', 'RET_ZERO'))))
    R.append(('copy_prev', Rule(0, [ab, ab], A('NEXT', 'PUT_COPY', 0xFF, 'NEXT', 'RET_ZERO'))))
    R.append(('copy_next', Rule(0, [ab, ab], A('PUT_COPY', 1, 'NEXT', 'NEXT', 'RET_ZERO'))))
    R.append(('assoc_swap', Rule(0, [ab, ab], A('ASSOC', 1, 1, 'NEXT', 'ASSOC', 1, 0xFF, 'NEXT', 'RET_ZERO'))))
    R.append(('subst', Rule(0, [ab], A('PUT_SUBS', 0, 0, 3, 0, 2, 'NEXT', 'RET_ZERO'))))
    R.append(('back2', Rule(0, [ab, ab], A('PUT_GLYPH', 0, 0, 'NEXT', 'NEXT') + push(-2) + A('POP_RET'))))
    R.append(('del_then_attach', Rule(0, [anyg, anyg, anyg], A('NEXT', 'DELETE', 'NEXT') + att(-2) + A('NEXT', 'RET_ZERO'))))
    R.append(('insert_between_del2', Rule(0, [ab, ab], A('NEXT', 'INSERT', 'PUT_GLYPH', 0, 0, 'NEXT', 'DELETE', 'NEXT', 'RET_ZERO'))))        # a x:ins _   (the inserted slot sits between two slots)
    R.append(('del_before_x', Rule(0, [ab, xy], A('DELETE', 'NEXT', 'NEXT', 'RET_ZERO'))))                                                # ab x > _ @2 (only inserted / substituted glyphs survive)
    R.append(('insert_between_keep', Rule(0, [ab, ab], A('NEXT', 'INSERT', 'PUT_GLYPH', 0, 1, 'NEXT', 'NEXT', 'RET_ZERO'))))
    R.append(('attach_then_del_parent', Rule(0, [anyg, anyg], A('NEXT') + att(-1) + push(-1) + A('POP_RET'))))
    # a slot that is CHANGED and then REFERENCED by a later item of the same rule (the loader plants a TEMP_COPY of it: a whole-slot copy that is freed after the rule);
    # after an attaching rule the changed slot has children / a parent, which the copy must not take away
    R.append(('copy_prev_after_glyph', Rule(0, [anyg, anyg], A('PUT_GLYPH', 0, 0, 'NEXT', 'PUT_COPY', 0xFF, 'NEXT', 'RET_ZERO'))))
    R.append(('subs_prev_after_glyph', Rule(0, [anyg, ab], A('PUT_GLYPH', 0, 1, 'NEXT', 'PUT_SUBS', 0xFF, 0, 3, 0, 2, 'NEXT', 'RET_ZERO'))))
    R.append(('assoc_then_read_prev', Rule(0, [anyg, anyg], A('ASSOC', 1, 0, 'NEXT', 'PUSH_SLOT_ATTR', SLAT['advX'], 0xFF, 'ATTR_SET', SLAT['shiftY'], 'NEXT', 'RET_ZERO'))))
    return R


def enum_twopass(tier):
    R = twopass_rules(); n = len(R)
    # all ordered pairs (pass0 rule, pass1 rule) and all same-pass pairs, both font directions, pass1 placed as substitution or positioning
    for i in range(n):
        for j in range(n):
            for kind in range(3):          # 0: two substitution passes, 1: same pass two rules, 2: second rule in a positioning pass (only if legal there)
                for rtl in (0, 1):
                    yield ('twopass', i, j, kind, rtl)
    if tier == 'thorough':
        for i in range(n):
            for j in range(n):
                for k in range(n):
                    yield ('twopass3', i, j, k, 0)


def font_for_twopass(i, j, kind, rtl, k=None):
    R = twopass_rules(); F = base_font()
    ri, rj = R[i][1], R[j][1]
    if k is not None:
        passes = [dict(maxloop=3, rules=[ri]), dict(maxloop=3, rules=[rj]), dict(maxloop=3, rules=[R[k][1]])]; ipos = 3
    elif kind == 0: passes = [dict(maxloop=3, rules=[ri]), dict(maxloop=3, rules=[rj])]; ipos = 2
    elif kind == 1: passes = [dict(maxloop=3, rules=[ri, rj])]; ipos = 1
    else: passes = [dict(maxloop=3, rules=[ri]), dict(maxloop=3, rules=[rj])]; ipos = 1
    F['silf'] = dict(version=3, passes=passes, classes=CLASSES, nlinear=NLINEAR, iSubst=0, iPos=ipos, numUser=1, maxPre=1, maxPost=3, dir=rtl)
    return F


def enum_manyrules(tier):
    """Scale seeds: many rules ending in the same / successive success states, so that the per-position candidate list exceeds
    the engine's fixed-size rule buffers (FiniteStateMachine::MAX_RULES = 128)."""
    ks = (1, 43, 64, 65, 100, 127, 128, 129, 200) if tier == 'thorough' else (43, 65, 100, 129)
    for k in ks:
        for maxlen in (1, 2, 3, 4):
            for order in (0, 1, 2, 3):      # 0: short rules first in the rule list, 1: long rules first, 2/3: same with sort keys DEcreasing with match depth (sort key != pattern length)
                for act in (0, 1):          # 0: NEXT only, 1: substitute
                    yield ('manyrules', k, maxlen, order, act)


def font_for_manyrules(k, maxlen, order, act):
    F = base_font(); a = {2, 3}
    lens = list(range(1, maxlen + 1))
    if order & 1: lens.reverse()
    rules = []
    for L in lens:
        for j in range(k):
            code = (A('PUT_GLYPH', 0, j % 2) if act else b'') + A('NEXT', 'RET_ZERO')
            r = Rule(0, [a] * L, code)
            if order & 2: r.sort = maxlen + 2 - L
            rules.append(r)
    F['silf'] = dict(version=3, passes=[dict(maxloop=3, rules=rules), fixed_attach_pass()], classes=CLASSES, nlinear=NLINEAR, iSubst=0, iPos=1, numUser=1, maxPre=1, maxPost=4)
    return F


def describe(item):
    if item[0] == 'action':
        _, cfg, atoms, t = item
        return dict(family='action', rule_len=cfg[0], pre=cfg[1], maxloop=cfg[2], where=cfg[3], program=[ACTION_ATOMS[a][0] for a in atoms] + [TERMS[t][0]])
    if item[0] == 'constraint':
        _, atoms, t = item
        return dict(family='constraint', program=[CONSTRAINT_ATOMS[a][0] for a in atoms] + [CTERMS[t][0]])
    if item[0] == 'slotattr':
        return dict(family='slotattrs', slat=item[1], opcode=['ATTR_SET', 'ATTR_ADD', 'PUSH_SLOT_ATTR', 'IATTR_SET', 'PUSH_ISLOT_ATTR', 'IATTR_ADD'][item[2]], subindex=item[3], just_levels=item[4], num_user=item[5], where=item[6])
    if item[0] == 'growth':
        return dict(family='growth', inserts_per_glyph=item[1], late_pass=['none', 'insert', 'delete'][item[2]], second_substitution_pass=item[3], ijust_equals_ipos=item[4])
    if item[0] == 'stalemap':
        return dict(family='stalemap', first_rule=['a b > x _', 'a b > _ x', 'a b c > x b _', 'a b c > x _ _', 'b > x _ / a _'][item[1]], second_rule_length=item[2], attaching_item=item[3], attach_to_offset=item[4], second_rule_in=['same pass', 'next substitution pass', 'positioning pass'][item[5]])
    if item[0] == 'classmap':
        return dict(family='classmap', classes=[CLASS_CATALOG[c] for c in item[1]], nlinear=item[2], opcode=('PUT_GLYPH' if item[4] < 0 else 'PUT_SUBS') + ('' if item[3] else '_8BIT_OBS'), in_class=item[4], out_class=item[5])
    if item[0] == 'manyrules':
        return dict(family='manyrules', rules_per_length=item[1], max_rule_length=item[2], long_first=item[3], substitutes=item[4])
    R = twopass_rules()
    if item[0] == 'twopass':
        return dict(family='twopass', rules=[R[item[1]][0], R[item[2]][0]], kind=item[3], rtl=item[4])
    return dict(family='twopass3', rules=[R[item[1]][0], R[item[2]][0], R[item[3]][0]])


def build(item):
    if item[0] == 'action': return font_for_action(item[1], item[2], item[3])
    if item[0] == 'constraint': return font_for_constraint(item[1], item[2])
    if item[0] == 'twopass': return font_for_twopass(item[1], item[2], item[3], item[4])
    if item[0] == 'manyrules': return font_for_manyrules(item[1], item[2], item[3], item[4])
    if item[0] == 'slotattr': return font_for_slotattr(*item[1:])
    if item[0] == 'growth': return font_for_growth(item[1], item[2], item[3], item[4])
    if item[0] == 'classmap': return font_for_classmap(*item[1:])
    if item[0] == 'stalemap': return font_for_stalemap(*item[1:])
    return font_for_twopass(item[1], item[2], 0, 0, item[3])


def enum_slotattrs(tier):
    """Every slot-attribute code 0..79 (defined or not) through every attribute opcode, with sub-indices at and beyond the font's limits, in fonts with
    0 / 1 / 2 justification levels and 1 / 3 user attributes, in a substitution and in a positioning pass."""
    for njl in (0, 1, 2):
        for nuser in (1, 3):
            for where in ('sub', 'pos'):
                for slat in range(80):
                    for op in range(3): yield ('slotattr', slat, op, 0, njl, nuser, where)
                    for op in range(3, 6):
                        for sub in (0, 1, 3, 255): yield ('slotattr', slat, op, sub, njl, nuser, where)


def font_for_slotattr(slat, op, sub, njl, nuser, where):
    F = base_font(); ab = {2, 3}
    code = [push(7) + A('ATTR_SET', slat), push(7) + A('ATTR_ADD', slat), A('PUSH_SLOT_ATTR', slat, 0, 'ATTR_SET', SLAT['shiftY']),
            push(7) + A('IATTR_SET', slat, sub), A('PUSH_ISLOT_ATTR', slat, 0, sub, 'ATTR_SET', SLAT['shiftY']), push(7) + A('IATTR_ADD', slat, sub)][op] + A('NEXT', 'RET_ZERO')
    rule = Rule(0, [ab], code)
    if where == 'sub': passes = [dict(maxloop=2, rules=[rule]), fixed_attach_pass()]; ipos = 1
    else: passes = [dict(maxloop=2, rules=[Rule(0, [{3}], A('PUT_GLYPH', 0, 0, 'NEXT', 'RET_ZERO'))]), dict(maxloop=2, rules=[rule])]; ipos = 1
    F['silf'] = dict(version=3, passes=passes, classes=CLASSES, nlinear=NLINEAR, iSubst=0, iPos=ipos, numUser=nuser, maxPre=1, maxPost=3, jlevels=[(5, 6, 5, 6)] * njl)
    return F


def enum_growth(tier):
    """Segment growth at the 64-slots-per-character budget: a substitution rule inserting k slots per matched glyph, then a pass at/after iPos that
    does nothing / inserts once more / deletes (the loader must refuse the last two)."""
    for k in (1, 31, 62, 63, 64, 65, 100):
        for late in (0, 1, 2):
            for two in (0, 1):
                for just in (0, 1):
                    yield ('growth', k, late, two, just)


def font_for_growth(k, late, two, just):
    F = base_font(); ab = {2, 3}; anyg = {2, 3, 5, 6}
    grow = Rule(0, [ab], A('INSERT', 'PUT_GLYPH', 0, 0, 'NEXT') * k + A('NEXT', 'RET_ZERO'))
    latecode = [A('NEXT', 'RET_ZERO'), A('INSERT', 'PUT_GLYPH', 0, 0, 'NEXT', 'NEXT', 'RET_ZERO'), A('DELETE', 'NEXT', 'RET_ZERO')][late]
    passes = [dict(maxloop=3, rules=[grow])]
    if two: passes.append(dict(maxloop=3, rules=[Rule(0, [{5}], A('INSERT', 'PUT_GLYPH', 0, 1, 'NEXT', 'NEXT', 'RET_ZERO'))]))      # a second substitution pass that doubles the inserted glyphs
    ipos = len(passes)
    passes.append(dict(maxloop=2, rules=[Rule(0, [ab], latecode)]))        # only the original glyph: one more slot per character
    F['silf'] = dict(version=3, passes=passes, classes=CLASSES, nlinear=NLINEAR, iSubst=0, iPos=ipos, iJust=ipos if just else len(passes), numUser=1, maxPre=1, maxPost=3)
    return F


def enum_deep(tier):
    """Structural atoms only, short texts: every 5-atom program in the main substitution context (quick); thorough adds the 5-atom programs in five other
    contexts and the 6-atom programs that contain two of {insert/delete, copy, attach}."""
    structural = [i for i, (n, _) in enumerate(ACTION_ATOMS) if n in ('next', 'glyph_x', 'subs+1', 'copy-1', 'copy+1', 'insert', 'delete', 'assoc-1+1', 'att-1', 'att+1', 'att0')]
    for n in (4, 5):
        for atoms in itertools.product(structural, repeat=n): yield ('action', (2, 0, 2, 'sub'), atoms, 0)
    if tier == 'thorough':
        yield from enum_action_campaign('campaign5')
        yield from enum_action_campaign('campaign6')
    else:
        spos = [i for i in structural if ACTION_ATOMS[i][0] not in ('insert', 'delete')]
        for atoms in itertools.product(structural, repeat=5): yield ('action', (3, 1, 5, 'sub'), atoms, 0)
        for atoms in itertools.product(spos, repeat=5): yield ('action', (2, 0, 1, 'pos'), atoms, 0)


def enum_stalemap(tier):
    """Slot references that leave the rule's slot map: a first rule of length 2..3 that deletes one of its slots (a LONGER finite-state run whose map entries
    outlive it), then a rule of length 1..2 on the glyph the first rule wrote whose attach.to names the slot k items away, k = -3..4 (before the map, inside
    it, its look-ahead entry, one and two past it); same pass or the next pass (substitution or positioning)."""
    for a_kind in range(5):
        for b_len in (1, 2):
            for b_pos in range(b_len):
                for k in range(-3, 5):
                    for where in range(3):
                        yield ('stalemap', a_kind, b_len, b_pos, k, where)


def font_for_stalemap(a_kind, b_len, b_pos, k, where):
    F = base_font(); ab = {2, 3}; anyg = {2, 3, 5, 6}
    a_rule = [Rule(0, [ab, ab], A('PUT_GLYPH', 0, 0, 'NEXT', 'DELETE', 'NEXT', 'RET_ZERO')),                     # a b > x _
              Rule(0, [ab, ab], A('DELETE', 'NEXT', 'PUT_GLYPH', 0, 0, 'NEXT', 'RET_ZERO')),                     # a b > _ x
              Rule(0, [ab, ab, ab], A('PUT_GLYPH', 0, 0, 'NEXT', 'NEXT', 'DELETE', 'NEXT', 'RET_ZERO')),         # a b c > x b _
              Rule(0, [ab, ab, ab], A('PUT_GLYPH', 0, 0, 'NEXT', 'DELETE', 'NEXT', 'DELETE', 'NEXT', 'RET_ZERO')),   # a b c > x _ _
              Rule(1, [ab, ab, ab], A('PUT_GLYPH', 0, 0, 'NEXT', 'DELETE', 'NEXT', 'RET_ZERO'))][a_kind]         # b > x _ / a _  (pre-context)
    code = b''
    for q in range(b_len): code += (att(k) if q == b_pos else b'') + A('NEXT')
    b_rule = Rule(0, [{5}] + [anyg] * (b_len - 1), code + A('RET_ZERO'))
    if where == 0: passes = [dict(maxloop=3, rules=[a_rule, b_rule]), fixed_attach_pass()]; ipos = 1
    elif where == 1: passes = [dict(maxloop=3, rules=[a_rule]), dict(maxloop=3, rules=[b_rule]), fixed_attach_pass()]; ipos = 2
    else: passes = [dict(maxloop=3, rules=[a_rule]), dict(maxloop=3, rules=[b_rule])]; ipos = 1
    F['silf'] = dict(version=3, passes=passes, classes=CLASSES, nlinear=NLINEAR, iSubst=0, iPos=ipos, numUser=1, maxPre=1, maxPost=3)
    return F


CLASS_CATALOG = [[], [5], [5, 6], [2, 3], [2, 3, 4]]          # empty, [x], [x y], [a b], [a b c]


def enum_classmap(tier):
    """Class-map layouts: every class map of 1..2 (thorough 1..3) classes drawn from a 5-entry catalog (empty, 1..3 members), every split into linear
    and lookup classes, crossed with PUT_GLYPH / PUT_SUBS (8-bit and 16-bit forms) over every class index incl. one past the map: an index equal to the
    size of an output class, an empty class, an output class that ends the class data, input classes of the linear kind."""
    for nc in ((1, 2, 3) if tier == 'thorough' else (1, 2)):
        for cls in itertools.product(range(len(CLASS_CATALOG)), repeat=nc):
            for nlin in range(nc + 1):
                for wide in (0, 1):
                    for out in range(nc + 1):
                        yield ('classmap', cls, nlin, wide, -1, out)
                        for inp in range(nc + 1): yield ('classmap', cls, nlin, wide, inp, out)


def font_for_classmap(cls, nlin, wide, inp, out):
    F = base_font(); abc = {2, 3, 4}
    if inp < 0: code = A('PUT_GLYPH', out >> 8, out & 0xFF) if wide else A('PUT_GLYPH8', out)
    else: code = A('PUT_SUBS', 0, inp >> 8, inp & 0xFF, out >> 8, out & 0xFF) if wide else A('PUT_SUBS8', 0, inp, out)
    rule = Rule(0, [abc], code + A('NEXT', 'RET_ZERO'))
    F['silf'] = dict(version=3, passes=[dict(maxloop=2, rules=[rule]), fixed_attach_pass()], classes=[CLASS_CATALOG[c] for c in cls], nlinear=nlin, iSubst=0, iPos=1, numUser=1, maxPre=1, maxPost=3)
    return F


ENUMS = dict(stalemap=enum_stalemap, classmap=enum_classmap, slotattrs=enum_slotattrs, deep=enum_deep, action=enum_action, constraint=enum_constraint, twopass=enum_twopass, manyrules=enum_manyrules, growth=enum_growth)


def main():
    family, tier, shard, nshards = sys.argv[1], sys.argv[2], int(sys.argv[3]), int(sys.argv[4])
    out = sys.stdout.buffer
    count_only = len(sys.argv) > 5 and sys.argv[5] == '--count'
    n = 0
    for idx, item in enumerate(ENUMS[family](tier)):
        if idx % nshards != shard: continue
        n += 1
        if count_only: continue
        try:
            tables = build_tables(build(item))
        except AssertionError:
            continue
        meta = json.dumps(describe(item)).encode()
        out.write(struct.pack('<Q', idx)); write_stream(out, tables, meta)
    if count_only: print(n)


if __name__ == '__main__':
    try:
        main()
    except BrokenPipeError:
        pass
