# Builds the real library straight from $(VERIF_REPO)/src (default /repo) in several
# instrumentation modes and links the check harnesses against it.  All output under build/.
VERIF_REPO ?= /repo
B ?= $(CURDIR)/build
CXX := clang++
SRC := $(VERIF_REPO)/src

LIBSRC_COMMON := gr_char_info gr_face gr_features gr_font gr_logging gr_segment gr_slot \
  CmapCache Code Collider Decompressor Face FeatureMap FileFace Font GlyphCache GlyphFace \
  Intervals Justifier NameTable Pass Position Segment Silf Slot Sparse TtfUtil UtfCodec

DEFS := -DGRAPHITE2_NTRACING -DGRAPHITE2_STATIC -DGRAPHITE2_VERIF
INCS := -I$(VERIF_REPO)/include -I$(VERIF_REPO)/src -I/verif/src
BASEFLAGS := -std=c++14 -g -fno-rtti -fno-exceptions -fno-omit-frame-pointer $(DEFS) $(INCS) -Wno-deprecated-declarations

ASANFLAGS := -O1 -fsanitize=address,undefined -fno-sanitize=vptr,function -fno-sanitize-recover=undefined
TRKFLAGS  := -O1 -fsanitize=thread
PLAINFLAGS := -O2

MODES := asan asan-call trk tsan plain

machine_asan := direct_machine
machine_asan-call := call_machine
machine_trk := direct_machine
machine_tsan := direct_machine
machine_plain := direct_machine

flags_asan := $(ASANFLAGS)
flags_asan-call := $(ASANFLAGS)
flags_trk := $(TRKFLAGS)
flags_tsan := $(TRKFLAGS)
flags_plain := $(PLAINFLAGS)

# link flags: trk links WITHOUT the tsan runtime (our own runtime provides __tsan_*)
ldflags_asan := -fsanitize=address,undefined -fno-sanitize=vptr,function
ldflags_asan-call := $(ldflags_asan)
ldflags_trk := -pthread
ldflags_tsan := -fsanitize=thread -pthread
ldflags_plain := -pthread

# harness (check) objects: same instrumentation as the library, except in trk mode where only the library is instrumented
chkflags_asan := $(flags_asan)
chkflags_asan-call := $(flags_asan-call)
chkflags_trk := -O1 -DVF_TRK -pthread
chkflags_tsan := $(flags_tsan) -DVF_TSAN -pthread
chkflags_plain := $(flags_plain)
extra_trk = $(B)/trk/rt/trk_runtime.o

define MODE_RULES
LIBOBJS_$(1) := $$(addprefix $(B)/$(1)/lib/,$$(addsuffix .o,$(LIBSRC_COMMON) $$(machine_$(1))))
$(B)/$(1)/lib/%.o: $(SRC)/%.cpp
	@mkdir -p $$(dir $$@)
	$(CXX) $(BASEFLAGS) $$(flags_$(1)) -MMD -MP -c $$< -o $$@
$(B)/$(1)/lib.a: $$(LIBOBJS_$(1))
	@rm -f $$@
	ar rcs $$@ $$^
# harness objects: private headers visible, no access control
$(B)/$(1)/chk/%.o: src/checks/%.cpp
	@mkdir -p $$(dir $$@)
	$(CXX) $(BASEFLAGS) $$(chkflags_$(1)) -fno-access-control -MMD -MP -c $$< -o $$@
$(B)/$(1)/%: $(B)/$(1)/chk/%.o $(B)/$(1)/lib.a $$(extra_$(1))
	$(CXX) $$(ldflags_$(1)) -o $$@ $$< $(B)/$(1)/lib.a $$(extra_$(1))
-include $$(wildcard $(B)/$(1)/lib/*.d) $$(wildcard $(B)/$(1)/chk/*.d)
endef
$(foreach m,$(MODES),$(eval $(call MODE_RULES,$(m))))

$(B)/trk/rt/trk_runtime.o: src/sched/trk_runtime.cpp src/sched/trk.h
	@mkdir -p $(dir $@)
	$(CXX) -std=c++14 -O2 -g -fno-omit-frame-pointer -fno-builtin -c $< -o $@

.SECONDARY:
# convenience: `make build/asan/x` means `make $(B)/asan/x` (dependency files use the absolute spelling)
build/%: $(B)/% ;
.PHONY: setup clean
setup:
	python3 bin/verif setup
clean:
	rm -rf $(B)
